#![allow(dead_code)]
use core::{mem::MaybeUninit, ptr};

/// Polyfill for `maybe_uninit_slice` feature's
/// `MaybeUninit::slice_assume_init_mut`. Every element of `slice` must have
/// been initialized.
#[inline(always)]
pub unsafe fn slice_assume_init_mut<T>(slice: &mut [MaybeUninit<T>]) -> &mut [T] {
    // SAFETY: `MaybeUninit<T>` is guaranteed to be layout-compatible with `T`.
    &mut *(slice as *mut [MaybeUninit<T>] as *mut [T])
}

#[inline]
pub fn uninit_slice_fill_zero(slice: &mut [MaybeUninit<u8>]) -> &mut [u8] {
    unsafe { ptr::write_bytes(slice.as_mut_ptr(), 0, slice.len()) };
    unsafe { slice_assume_init_mut(slice) }
}

#[inline(always)]
pub fn slice_as_uninit<T>(slice: &[T]) -> &[MaybeUninit<T>] {
    // SAFETY: `MaybeUninit<T>` is guaranteed to be layout-compatible with `T`.
    // There is no risk of writing a `MaybeUninit<T>` into the result since
    // the result isn't mutable.
    unsafe { &*(slice as *const [T] as *const [MaybeUninit<T>]) }
}

/// View an mutable initialized array as potentially-uninitialized.
///
/// This is unsafe because it allows assigning uninitialized values into
/// `slice`, which would be undefined behavior.
#[inline(always)]
pub unsafe fn slice_as_uninit_mut<T>(slice: &mut [T]) -> &mut [MaybeUninit<T>] {
    // SAFETY: `MaybeUninit<T>` is guaranteed to be layout-compatible with `T`.
    &mut *(slice as *mut [T] as *mut [MaybeUninit<T>])
}
