extern crate std;

use crate::Error;
use std::io;

impl From<Error> for io::Error {
    fn from(err: Error) -> Self {
        match err.raw_os_error() {
            Some(errno) => io::Error::from_raw_os_error(errno),
            None => io::Error::new(io::ErrorKind::Other, err),
        }
    }
}

impl std::error::Error for Error {}
