//! Implementation for WASM based on Web and Node.js
use crate::Error;

extern crate std;
use std::{mem::MaybeUninit, thread_local};

use js_sys::{global, Function, Uint8Array};
use wasm_bindgen::{prelude::wasm_bindgen, JsCast, JsValue};

// Size of our temporary Uint8Array buffer used with WebCrypto methods
// Maximum is 65536 bytes see https://developer.mozilla.org/en-US/docs/Web/API/Crypto/getRandomValues
const WEB_CRYPTO_BUFFER_SIZE: usize = 256;
// Node.js's crypto.randomFillSync requires the size to be less than 2**31.
const NODE_MAX_BUFFER_SIZE: usize = (1 << 31) - 1;

enum RngSource {
    Node(NodeCrypto),
    Web(WebCrypto, Uint8Array),
}

// JsValues are always per-thread, so we initialize RngSource for each thread.
//   See: https://github.com/rustwasm/wasm-bindgen/pull/955
thread_local!(
    static RNG_SOURCE: Result<RngSource, Error> = getrandom_init();
);

pub(crate) fn getrandom_inner(dest: &mut [MaybeUninit<u8>]) -> Result<(), Error> {
    RNG_SOURCE.with(|result| {
        let source = result.as_ref().map_err(|&e| e)?;

        match source {
            RngSource::Node(n) => {
                for chunk in dest.chunks_mut(NODE_MAX_BUFFER_SIZE) {
                    // SAFETY: chunk is never used directly, the memory is only
                    // modified via the Uint8Array view, which is passed
                    // directly to JavaScript. Also, crypto.randomFillSync does
                    // not resize the buffer. We know the length is less than
                    // u32::MAX because of the chunking above.
                    // Note that this uses the fact that JavaScript doesn't
                    // have a notion of "uninitialized memory", this is purely
                    // a Rust/C/C++ concept.
                    let res = n.random_fill_sync(unsafe {
                        Uint8Array::view_mut_raw(chunk.as_mut_ptr() as *mut u8, chunk.len())
                    });
                    if res.is_err() {
                        return Err(Error::NODE_RANDOM_FILL_SYNC);
                    }
                }
            }
            RngSource::Web(crypto, buf) => {
                // getRandomValues does not work with all types of WASM memory,
                // so we initially write to browser memory to avoid exceptions.
                for chunk in dest.chunks_mut(WEB_CRYPTO_BUFFER_SIZE) {
                    // The chunk can be smaller than buf's length, so we call to
                    // JS to create a smaller view of buf without allocation.
                    let sub_buf = buf.subarray(0, chunk.len() as u32);

                    if crypto.get_random_values(&sub_buf).is_err() {
                        return Err(Error::WEB_GET_RANDOM_VALUES);
                    }

                    // SAFETY: `sub_buf`'s length is the same length as `chunk`
                    unsafe { sub_buf.raw_copy_to_ptr(chunk.as_mut_ptr() as *mut u8) };
                }
            }
        };
        Ok(())
    })
}

fn getrandom_init() -> Result<RngSource, Error> {
    let global: Global = global().unchecked_into();

    // Get the Web Crypto interface if we are in a browser, Web Worker, Deno,
    // or another environment that supports the Web Cryptography API. This
    // also allows for user-provided polyfills in unsupported environments.
    let crypto = match global.crypto() {
        // Standard Web Crypto interface
        c if c.is_object() => c,
        // Node.js CommonJS Crypto module
        _ if is_node(&global) => {
            // If module.require isn't a valid function, we are in an ES module.
            match Module::require_fn().and_then(JsCast::dyn_into::<Function>) {
                Ok(require_fn) => match require_fn.call1(&global, &JsValue::from_str("crypto")) {
                    Ok(n) => return Ok(RngSource::Node(n.unchecked_into())),
                    Err(_) => return Err(Error::NODE_CRYPTO),
                },
                Err(_) => return Err(Error::NODE_ES_MODULE),
            }
        }
        // IE 11 Workaround
        _ => match global.ms_crypto() {
            c if c.is_object() => c,
            _ => return Err(Error::WEB_CRYPTO),
        },
    };

    let buf = Uint8Array::new_with_length(WEB_CRYPTO_BUFFER_SIZE as u32);
    Ok(RngSource::Web(crypto, buf))
}

// Taken from https://www.npmjs.com/package/browser-or-node
fn is_node(global: &Global) -> bool {
    let process = global.process();
    if process.is_object() {
        let versions = process.versions();
        if versions.is_object() {
            return versions.node().is_string();
        }
    }
    false
}

#[wasm_bindgen]
extern "C" {
    // Return type of js_sys::global()
    type Global;

    // Web Crypto API: Crypto interface (https://www.w3.org/TR/WebCryptoAPI/)
    type WebCrypto;
    // Getters for the WebCrypto API
    #[wasm_bindgen(method, getter)]
    fn crypto(this: &Global) -> WebCrypto;
    #[wasm_bindgen(method, getter, js_name = msCrypto)]
    fn ms_crypto(this: &Global) -> WebCrypto;
    // Crypto.getRandomValues()
    #[wasm_bindgen(method, js_name = getRandomValues, catch)]
    fn get_random_values(this: &WebCrypto, buf: &Uint8Array) -> Result<(), JsValue>;

    // Node JS crypto module (https://nodejs.org/api/crypto.html)
    type NodeCrypto;
    // crypto.randomFillSync()
    #[wasm_bindgen(method, js_name = randomFillSync, catch)]
    fn random_fill_sync(this: &NodeCrypto, buf: Uint8Array) -> Result<(), JsValue>;

    // Ideally, we would just use `fn require(s: &str)` here. However, doing
    // this causes a Webpack warning. So we instead return the function itself
    // and manually invoke it using call1. This also lets us to check that the
    // function actually exists, allowing for better error messages. See:
    //   https://github.com/rust-random/getrandom/issues/224
    //   https://github.com/rust-random/getrandom/issues/256
    type Module;
    #[wasm_bindgen(getter, static_method_of = Module, js_class = module, js_name = require, catch)]
    fn require_fn() -> Result<JsValue, JsValue>;

    // Node JS process Object (https://nodejs.org/api/process.html)
    #[wasm_bindgen(method, getter)]
    fn process(this: &Global) -> Process;
    type Process;
    #[wasm_bindgen(method, getter)]
    fn versions(this: &Process) -> Versions;
    type Versions;
    #[wasm_bindgen(method, getter)]
    fn node(this: &Versions) -> JsValue;
}
