//! Implementation for Fuchsia Zircon
use crate::Error;
use core::mem::MaybeUninit;

#[link(name = "zircon")]
extern "C" {
    fn zx_cprng_draw(buffer: *mut u8, length: usize);
}

pub fn getrandom_inner(dest: &mut [MaybeUninit<u8>]) -> Result<(), Error> {
    unsafe { zx_cprng_draw(dest.as_mut_ptr() as *mut u8, dest.len()) }
    Ok(())
}
