//! Implementation for Linux / Android with `/dev/urandom` fallback
use crate::{
    lazy::LazyBool,
    util_libc::{getrandom_syscall, last_os_error, sys_fill_exact},
    {use_file, Error},
};
use core::mem::MaybeUninit;

pub fn getrandom_inner(dest: &mut [MaybeUninit<u8>]) -> Result<(), Error> {
    // getrandom(2) was introduced in Linux 3.17
    static HAS_GETRANDOM: LazyBool = LazyBool::new();
    if HAS_GETRANDOM.unsync_init(is_getrandom_available) {
        sys_fill_exact(dest, getrandom_syscall)
    } else {
        use_file::getrandom_inner(dest)
    }
}

fn is_getrandom_available() -> bool {
    if getrandom_syscall(&mut []) < 0 {
        match last_os_error().raw_os_error() {
            Some(libc::ENOSYS) => false, // No kernel support
            // The fallback on EPERM is intentionally not done on Android since this workaround
            // seems to be needed only for specific Linux-based products that aren't based
            // on Android. See https://github.com/rust-random/getrandom/issues/229.
            #[cfg(target_os = "linux")]
            Some(libc::EPERM) => false, // Blocked by seccomp
            _ => true,
        }
    } else {
        true
    }
}
