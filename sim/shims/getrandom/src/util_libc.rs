#![allow(dead_code)]
use crate::Error;
use core::{
    mem::MaybeUninit,
    num::NonZeroU32,
    ptr::NonNull,
    sync::atomic::{fence, AtomicPtr, Ordering},
};
use libc::c_void;

cfg_if! {
    if #[cfg(any(target_os = "netbsd", target_os = "openbsd", target_os = "android", target_os = "cygwin"))] {
        use libc::__errno as errno_location;
    } else if #[cfg(any(target_os = "linux", target_os = "emscripten", target_os = "hurd", target_os = "redox", target_os = "dragonfly"))] {
        use libc::__errno_location as errno_location;
    } else if #[cfg(any(target_os = "solaris", target_os = "illumos"))] {
        use libc::___errno as errno_location;
    } else if #[cfg(any(target_os = "macos", target_os = "freebsd"))] {
        use libc::__error as errno_location;
    } else if #[cfg(target_os = "haiku")] {
        use libc::_errnop as errno_location;
    } else if #[cfg(target_os = "nto")] {
        use libc::__get_errno_ptr as errno_location;
    } else if #[cfg(any(all(target_os = "horizon", target_arch = "arm"), target_os = "vita"))] {
        extern "C" {
            // Not provided by libc: https://github.com/rust-lang/libc/issues/1995
            fn __errno() -> *mut libc::c_int;
        }
        use __errno as errno_location;
    } else if #[cfg(target_os = "aix")] {
        use libc::_Errno as errno_location;
    }
}

cfg_if! {
    if #[cfg(target_os = "vxworks")] {
        use libc::errnoGet as get_errno;
    } else {
        unsafe fn get_errno() -> libc::c_int { *errno_location() }
    }
}

pub fn last_os_error() -> Error {
    let errno = unsafe { get_errno() };
    if errno > 0 {
        Error::from(NonZeroU32::new(errno as u32).unwrap())
    } else {
        Error::ERRNO_NOT_POSITIVE
    }
}

// Fill a buffer by repeatedly invoking a system call. The `sys_fill` function:
//   - should return -1 and set errno on failure
//   - should return the number of bytes written on success
pub fn sys_fill_exact(
    mut buf: &mut [MaybeUninit<u8>],
    sys_fill: impl Fn(&mut [MaybeUninit<u8>]) -> libc::ssize_t,
) -> Result<(), Error> {
    while !buf.is_empty() {
        let res = sys_fill(buf);
        match res {
            res if res > 0 => buf = buf.get_mut(res as usize..).ok_or(Error::UNEXPECTED)?,
            -1 => {
                let err = last_os_error();
                // We should try again if the call was interrupted.
                if err.raw_os_error() != Some(libc::EINTR) {
                    return Err(err);
                }
            }
            // Negative return codes not equal to -1 should be impossible.
            // EOF (ret = 0) should be impossible, as the data we are reading
            // should be an infinite stream of random bytes.
            _ => return Err(Error::UNEXPECTED),
        }
    }
    Ok(())
}

// A "weak" binding to a C function that may or may not be present at runtime.
// Used for supporting newer OS features while still building on older systems.
// Based off of the DlsymWeak struct in libstd:
// https://github.com/rust-lang/rust/blob/1.61.0/library/std/src/sys/unix/weak.rs#L84
// except that the caller must manually cast self.ptr() to a function pointer.
pub struct Weak {
    name: &'static str,
    addr: AtomicPtr<c_void>,
}

impl Weak {
    // A non-null pointer value which indicates we are uninitialized. This
    // constant should ideally not be a valid address of a function pointer.
    // However, if by chance libc::dlsym does return UNINIT, there will not
    // be undefined behavior. libc::dlsym will just be called each time ptr()
    // is called. This would be inefficient, but correct.
    // TODO: Replace with core::ptr::invalid_mut(1) when that is stable.
    const UNINIT: *mut c_void = 1 as *mut c_void;

    // Construct a binding to a C function with a given name. This function is
    // unsafe because `name` _must_ be null terminated.
    pub const unsafe fn new(name: &'static str) -> Self {
        Self {
            name,
            addr: AtomicPtr::new(Self::UNINIT),
        }
    }

    // Return the address of a function if present at runtime. Otherwise,
    // return None. Multiple callers can call ptr() concurrently. It will
    // always return _some_ value returned by libc::dlsym. However, the
    // dlsym function may be called multiple times.
    pub fn ptr(&self) -> Option<NonNull<c_void>> {
        // Despite having only a single atomic variable (self.addr), we still
        // cannot always use Ordering::Relaxed, as we need to make sure a
        // successful call to dlsym() is "ordered before" any data read through
        // the returned pointer (which occurs when the function is called).
        // Our implementation mirrors that of the one in libstd, meaning that
        // the use of non-Relaxed operations is probably unnecessary.
        match self.addr.load(Ordering::Relaxed) {
            Self::UNINIT => {
                let symbol = self.name.as_ptr() as *const _;
                let addr = unsafe { libc::dlsym(libc::RTLD_DEFAULT, symbol) };
                // Synchronizes with the Acquire fence below
                self.addr.store(addr, Ordering::Release);
                NonNull::new(addr)
            }
            addr => {
                let func = NonNull::new(addr)?;
                fence(Ordering::Acquire);
                Some(func)
            }
        }
    }
}

// SAFETY: path must be null terminated, FD must be manually closed.
pub unsafe fn open_readonly(path: &str) -> Result<libc::c_int, Error> {
    debug_assert_eq!(path.as_bytes().last(), Some(&0));
    loop {
        let fd = libc::open(path.as_ptr() as *const _, libc::O_RDONLY | libc::O_CLOEXEC);
        if fd >= 0 {
            return Ok(fd);
        }
        let err = last_os_error();
        // We should try again if open() was interrupted.
        if err.raw_os_error() != Some(libc::EINTR) {
            return Err(err);
        }
    }
}

/// Thin wrapper around the `getrandom()` Linux system call
#[cfg(any(target_os = "android", target_os = "linux"))]
pub fn getrandom_syscall(buf: &mut [MaybeUninit<u8>]) -> libc::ssize_t {
    unsafe {
        // /verif shim: go through the interposable libc symbol instead of the raw syscall so
        // that the simulation harness can serve these bytes from its seeded PRNG.
        libc::getrandom(buf.as_mut_ptr() as *mut libc::c_void, buf.len(), 0) as libc::ssize_t
    }
}
