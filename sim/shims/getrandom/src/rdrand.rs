//! RDRAND backend for x86(-64) targets
use crate::{lazy::LazyBool, util::slice_as_uninit, Error};
use core::mem::{size_of, MaybeUninit};

cfg_if! {
    if #[cfg(target_arch = "x86_64")] {
        use core::arch::x86_64 as arch;
        use arch::_rdrand64_step as rdrand_step;
    } else if #[cfg(target_arch = "x86")] {
        use core::arch::x86 as arch;
        use arch::_rdrand32_step as rdrand_step;
    }
}

// Recommendation from "Intel® Digital Random Number Generator (DRNG) Software
// Implementation Guide" - Section 5.2.1 and "Intel® 64 and IA-32 Architectures
// Software Developer’s Manual" - Volume 1 - Section 7.3.17.1.
const RETRY_LIMIT: usize = 10;

#[target_feature(enable = "rdrand")]
unsafe fn rdrand() -> Option<usize> {
    for _ in 0..RETRY_LIMIT {
        let mut val = 0;
        if rdrand_step(&mut val) == 1 {
            return Some(val as usize);
        }
    }
    None
}

// "rdrand" target feature requires "+rdrand" flag, see https://github.com/rust-lang/rust/issues/49653.
#[cfg(all(target_env = "sgx", not(target_feature = "rdrand")))]
compile_error!(
    "SGX targets require 'rdrand' target feature. Enable by using -C target-feature=+rdrand."
);

// Run a small self-test to make sure we aren't repeating values
// Adapted from Linux's test in arch/x86/kernel/cpu/rdrand.c
// Fails with probability < 2^(-90) on 32-bit systems
#[target_feature(enable = "rdrand")]
unsafe fn self_test() -> bool {
    // On AMD, RDRAND returns 0xFF...FF on failure, count it as a collision.
    let mut prev = !0; // TODO(MSRV 1.43): Move to usize::MAX
    let mut fails = 0;
    for _ in 0..8 {
        match rdrand() {
            Some(val) if val == prev => fails += 1,
            Some(val) => prev = val,
            None => return false,
        };
    }
    fails <= 2
}

fn is_rdrand_good() -> bool {
    #[cfg(not(target_feature = "rdrand"))]
    {
        // SAFETY: All Rust x86 targets are new enough to have CPUID, and we
        // check that leaf 1 is supported before using it.
        let cpuid0 = unsafe { arch::__cpuid(0) };
        if cpuid0.eax < 1 {
            return false;
        }
        let cpuid1 = unsafe { arch::__cpuid(1) };

        let vendor_id = [
            cpuid0.ebx.to_le_bytes(),
            cpuid0.edx.to_le_bytes(),
            cpuid0.ecx.to_le_bytes(),
        ];
        if vendor_id == [*b"Auth", *b"enti", *b"cAMD"] {
            let mut family = (cpuid1.eax >> 8) & 0xF;
            if family == 0xF {
                family += (cpuid1.eax >> 20) & 0xFF;
            }
            // AMD CPUs families before 17h (Zen) sometimes fail to set CF when
            // RDRAND fails after suspend. Don't use RDRAND on those families.
            // See https://bugzilla.redhat.com/show_bug.cgi?id=1150286
            if family < 0x17 {
                return false;
            }
        }

        const RDRAND_FLAG: u32 = 1 << 30;
        if cpuid1.ecx & RDRAND_FLAG == 0 {
            return false;
        }
    }

    // SAFETY: We have already checked that rdrand is available.
    unsafe { self_test() }
}

pub fn getrandom_inner(dest: &mut [MaybeUninit<u8>]) -> Result<(), Error> {
    static RDRAND_GOOD: LazyBool = LazyBool::new();
    if !RDRAND_GOOD.unsync_init(is_rdrand_good) {
        return Err(Error::NO_RDRAND);
    }
    // SAFETY: After this point, we know rdrand is supported.
    unsafe { rdrand_exact(dest) }.ok_or(Error::FAILED_RDRAND)
}

// TODO: make this function safe when we have feature(target_feature_11)
#[target_feature(enable = "rdrand")]
unsafe fn rdrand_exact(dest: &mut [MaybeUninit<u8>]) -> Option<()> {
    // We use chunks_exact_mut instead of chunks_mut as it allows almost all
    // calls to memcpy to be elided by the compiler.
    let mut chunks = dest.chunks_exact_mut(size_of::<usize>());
    for chunk in chunks.by_ref() {
        let src = rdrand()?.to_ne_bytes();
        chunk.copy_from_slice(slice_as_uninit(&src));
    }

    let tail = chunks.into_remainder();
    let n = tail.len();
    if n > 0 {
        let src = rdrand()?.to_ne_bytes();
        tail.copy_from_slice(slice_as_uninit(&src[..n]));
    }
    Some(())
}
