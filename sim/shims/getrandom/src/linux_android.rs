//! Implementation for Linux / Android without `/dev/urandom` fallback
use crate::{util_libc, Error};
use core::mem::MaybeUninit;

pub fn getrandom_inner(dest: &mut [MaybeUninit<u8>]) -> Result<(), Error> {
    util_libc::sys_fill_exact(dest, util_libc::getrandom_syscall)
}
