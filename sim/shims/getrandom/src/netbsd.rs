//! Implementation for NetBSD
use crate::{
    util_libc::{sys_fill_exact, Weak},
    Error,
};
use core::{mem::MaybeUninit, ptr};

fn kern_arnd(buf: &mut [MaybeUninit<u8>]) -> libc::ssize_t {
    static MIB: [libc::c_int; 2] = [libc::CTL_KERN, libc::KERN_ARND];
    let mut len = buf.len();
    let ret = unsafe {
        libc::sysctl(
            MIB.as_ptr(),
            MIB.len() as libc::c_uint,
            buf.as_mut_ptr() as *mut _,
            &mut len,
            ptr::null(),
            0,
        )
    };
    if ret == -1 {
        -1
    } else {
        len as libc::ssize_t
    }
}

type GetRandomFn = unsafe extern "C" fn(*mut u8, libc::size_t, libc::c_uint) -> libc::ssize_t;

pub fn getrandom_inner(dest: &mut [MaybeUninit<u8>]) -> Result<(), Error> {
    // getrandom(2) was introduced in NetBSD 10.0
    static GETRANDOM: Weak = unsafe { Weak::new("getrandom\0") };
    if let Some(fptr) = GETRANDOM.ptr() {
        let func: GetRandomFn = unsafe { core::mem::transmute(fptr) };
        return sys_fill_exact(dest, |buf| unsafe {
            func(buf.as_mut_ptr() as *mut u8, buf.len(), 0)
        });
    }

    // NetBSD will only return up to 256 bytes at a time, and
    // older NetBSD kernels will fail on longer buffers.
    for chunk in dest.chunks_mut(256) {
        sys_fill_exact(chunk, kern_arnd)?
    }
    Ok(())
}
