//! Interface to the operating system's random number generator.
//!
//! # Supported targets
//!
//! | Target            | Target Triple      | Implementation
//! | ----------------- | ------------------ | --------------
//! | Linux, Android    | `*‑linux‑*`        | [`getrandom`][1] system call if available, otherwise [`/dev/urandom`][2] after successfully polling `/dev/random`
//! | Windows           | `*‑windows‑*`      | [`BCryptGenRandom`]
//! | macOS             | `*‑apple‑darwin`   | [`getentropy`][3]
//! | iOS, tvOS, watchOS | `*‑apple‑ios`, `*-apple-tvos`, `*-apple-watchos` | [`CCRandomGenerateBytes`]
//! | FreeBSD           | `*‑freebsd`        | [`getrandom`][5]
//! | OpenBSD           | `*‑openbsd`        | [`getentropy`][7]
//! | NetBSD            | `*‑netbsd`         | [`getrandom`][16] if available, otherwise [`kern.arandom`][8]
//! | Dragonfly BSD     | `*‑dragonfly`      | [`getrandom`][9]
//! | Solaris           | `*‑solaris`        | [`getrandom`][11] (with `GRND_RANDOM`)
//! | illumos           | `*‑illumos`        | [`getrandom`][12]
//! | Fuchsia OS        | `*‑fuchsia`        | [`cprng_draw`]
//! | Redox             | `*‑redox`          | `/dev/urandom`
//! | Haiku             | `*‑haiku`          | `/dev/urandom` (identical to `/dev/random`)
//! | Hermit            | `*-hermit`         | [`sys_read_entropy`]
//! | Hurd              | `*-hurd-*`         | [`getrandom`][17]
//! | SGX               | `x86_64‑*‑sgx`     | [`RDRAND`]
//! | VxWorks           | `*‑wrs‑vxworks‑*`  | `randABytes` after checking entropy pool initialization with `randSecure`
//! | ESP-IDF           | `*‑espidf`         | [`esp_fill_random`]
//! | Emscripten        | `*‑emscripten`     | [`getentropy`][13]
//! | WASI              | `wasm32‑wasi`      | [`random_get`]
//! | Web Browser and Node.js | `wasm*‑*‑unknown` | [`Crypto.getRandomValues`] if available, then [`crypto.randomFillSync`] if on Node.js, see [WebAssembly support]
//! | SOLID             | `*-kmc-solid_*`    | `SOLID_RNG_SampleRandomBytes`
//! | Nintendo 3DS      | `*-nintendo-3ds`   | [`getrandom`][18]
//! | PS Vita           | `*-vita-*`         | [`getentropy`][13]
//! | QNX Neutrino      | `*‑nto-qnx*`       | [`/dev/urandom`][14] (identical to `/dev/random`)
//! | AIX               | `*-ibm-aix`        | [`/dev/urandom`][15]
//! | Cygwin            | `*-cygwin`         | [`getrandom`][19] (based on [`RtlGenRandom`])
//!
//! Pull Requests that add support for new targets to `getrandom` are always welcome.
//!
//! ## Unsupported targets
//!
//! By default, `getrandom` will not compile on unsupported targets, but certain
//! features allow a user to select a "fallback" implementation if no supported
//! implementation exists.
//!
//! All of the below mechanisms only affect unsupported
//! targets. Supported targets will _always_ use their supported implementations.
//! This prevents a crate from overriding a secure source of randomness
//! (either accidentally or intentionally).
//!
//! ## `/dev/urandom` fallback on Linux and Android
//!
//! On Linux targets the fallback is present only if either `target_env` is `musl`,
//! or `target_arch` is one of the following: `aarch64`, `arm`, `powerpc`, `powerpc64`,
//! `s390x`, `x86`, `x86_64`. Other supported targets [require][platform-support]
//! kernel versions which support `getrandom` system call, so fallback is not needed.
//!
//! On Android targets the fallback is present only for the following `target_arch`es:
//! `aarch64`, `arm`, `x86`, `x86_64`. Other `target_arch`es (e.g. RISC-V) require
//! sufficiently high API levels.
//!
//! The fallback can be disabled by enabling the `linux_disable_fallback` crate feature.
//! Note that doing so will bump minimum supported Linux kernel version to 3.17 and
//! Android API level to 23 (Marshmallow).
//!
//! ### RDRAND on x86
//!
//! *If the `rdrand` Cargo feature is enabled*, `getrandom` will fallback to using
//! the [`RDRAND`] instruction to get randomness on `no_std` `x86`/`x86_64`
//! targets. This feature has no effect on other CPU architectures.
//!
//! ### WebAssembly support
//!
//! This crate fully supports the
//! [`wasm32-wasi`](https://github.com/CraneStation/wasi) and
//! [`wasm32-unknown-emscripten`](https://www.hellorust.com/setup/emscripten/)
//! targets. However, the `wasm32-unknown-unknown` target (i.e. the target used
//! by `wasm-pack`) is not automatically
//! supported since, from the target name alone, we cannot deduce which
//! JavaScript interface is in use (or if JavaScript is available at all).
//!
//! Instead, *if the `js` Cargo feature is enabled*, this crate will assume
//! that you are building for an environment containing JavaScript, and will
//! call the appropriate methods. Both web browser (main window and Web Workers)
//! and Node.js environments are supported, invoking the methods
//! [described above](#supported-targets) using the [`wasm-bindgen`] toolchain.
//!
//! To enable the `js` Cargo feature, add the following to the `dependencies`
//! section in your `Cargo.toml` file:
//! ```toml
//! [dependencies]
//! getrandom = { version = "0.2", features = ["js"] }
//! ```
//!
//! This can be done even if `getrandom` is not a direct dependency. Cargo
//! allows crates to enable features for indirect dependencies.
//!
//! This feature should only be enabled for binary, test, or benchmark crates.
//! Library crates should generally not enable this feature, leaving such a
//! decision to *users* of their library. Also, libraries should not introduce
//! their own `js` features *just* to enable `getrandom`'s `js` feature.
//!
//! This feature has no effect on targets other than `wasm32-unknown-unknown`.
//!
//! #### Node.js ES module support
//!
//! Node.js supports both [CommonJS modules] and [ES modules]. Due to
//! limitations in wasm-bindgen's [`module`] support, we cannot directly
//! support ES Modules running on Node.js. However, on Node v15 and later, the
//! module author can add a simple shim to support the Web Cryptography API:
//! ```js
//! import { webcrypto } from 'node:crypto'
//! globalThis.crypto = webcrypto
//! ```
//! This crate will then use the provided `webcrypto` implementation.
//!
//! ### Platform Support
//! This crate generally supports the same operating system and platform versions
//! that the Rust standard library does. Additional targets may be supported using
//! pluggable custom implementations.
//!
//! This means that as Rust drops support for old versions of operating systems
//! (such as old Linux kernel versions, Android API levels, etc) in stable releases,
//! `getrandom` may create new patch releases (`0.N.x`) that remove support for
//! outdated platform versions.
//!
//! ### Custom implementations
//!
//! The [`register_custom_getrandom!`] macro allows a user to mark their own
//! function as the backing implementation for [`getrandom`]. See the macro's
//! documentation for more information about writing and registering your own
//! custom implementations.
//!
//! Note that registering a custom implementation only has an effect on targets
//! that would otherwise not compile. Any supported targets (including those
//! using `rdrand` and `js` Cargo features) continue using their normal
//! implementations even if a function is registered.
//!
//! ## Early boot
//!
//! Sometimes, early in the boot process, the OS has not collected enough
//! entropy to securely seed its RNG. This is especially common on virtual
//! machines, where standard "random" events are hard to come by.
//!
//! Some operating system interfaces always block until the RNG is securely
//! seeded. This can take anywhere from a few seconds to more than a minute.
//! A few (Linux, NetBSD and Solaris) offer a choice between blocking and
//! getting an error; in these cases, we always choose to block.
//!
//! On Linux (when the `getrandom` system call is not available), reading from
//! `/dev/urandom` never blocks, even when the OS hasn't collected enough
//! entropy yet. To avoid returning low-entropy bytes, we first poll
//! `/dev/random` and only switch to `/dev/urandom` once this has succeeded.
//!
//! On OpenBSD, this kind of entropy accounting isn't available, and on
//! NetBSD, blocking on it is discouraged. On these platforms, nonblocking
//! interfaces are used, even when reliable entropy may not be available.
//! On the platforms where it is used, the reliability of entropy accounting
//! itself isn't free from controversy. This library provides randomness
//! sourced according to the platform's best practices, but each platform has
//! its own limits on the grade of randomness it can promise in environments
//! with few sources of entropy.
//!
//! ## Error handling
//!
//! We always choose failure over returning known insecure "random" bytes. In
//! general, on supported platforms, failure is highly unlikely, though not
//! impossible. If an error does occur, then it is likely that it will occur
//! on every call to `getrandom`, hence after the first successful call one
//! can be reasonably confident that no errors will occur.
//!
//! [1]: https://manned.org/getrandom.2
//! [2]: https://manned.org/urandom.4
//! [3]: https://www.unix.com/man-page/mojave/2/getentropy/
//! [4]: https://www.unix.com/man-page/mojave/4/urandom/
//! [5]: https://www.freebsd.org/cgi/man.cgi?query=getrandom&manpath=FreeBSD+12.0-stable
//! [7]: https://man.openbsd.org/getentropy.2
//! [8]: https://man.netbsd.org/sysctl.7
//! [9]: https://leaf.dragonflybsd.org/cgi/web-man?command=getrandom
//! [11]: https://docs.oracle.com/cd/E88353_01/html/E37841/getrandom-2.html
//! [12]: https://illumos.org/man/2/getrandom
//! [13]: https://github.com/emscripten-core/emscripten/pull/12240
//! [14]: https://www.qnx.com/developers/docs/7.1/index.html#com.qnx.doc.neutrino.utilities/topic/r/random.html
//! [15]: https://www.ibm.com/docs/en/aix/7.3?topic=files-random-urandom-devices
//! [16]: https://man.netbsd.org/getrandom.2
//! [17]: https://www.gnu.org/software/libc/manual/html_mono/libc.html#index-getrandom
//! [18]: https://github.com/rust3ds/shim-3ds/commit/b01d2568836dea2a65d05d662f8e5f805c64389d
//! [19]: https://github.com/cygwin/cygwin/blob/main/winsup/cygwin/libc/getentropy.cc
//!
//! [`BCryptGenRandom`]: https://docs.microsoft.com/en-us/windows/win32/api/bcrypt/nf-bcrypt-bcryptgenrandom
//! [`RtlGenRandom`]: https://learn.microsoft.com/en-us/windows/win32/api/ntsecapi/nf-ntsecapi-rtlgenrandom
//! [`Crypto.getRandomValues`]: https://www.w3.org/TR/WebCryptoAPI/#Crypto-method-getRandomValues
//! [`RDRAND`]: https://software.intel.com/en-us/articles/intel-digital-random-number-generator-drng-software-implementation-guide
//! [`CCRandomGenerateBytes`]: https://opensource.apple.com/source/CommonCrypto/CommonCrypto-60074/include/CommonRandom.h.auto.html
//! [`cprng_draw`]: https://fuchsia.dev/fuchsia-src/zircon/syscalls/cprng_draw
//! [`crypto.randomFillSync`]: https://nodejs.org/api/crypto.html#cryptorandomfillsyncbuffer-offset-size
//! [`esp_fill_random`]: https://docs.espressif.com/projects/esp-idf/en/latest/esp32/api-reference/system/random.html#_CPPv415esp_fill_randomPv6size_t
//! [`random_get`]: https://github.com/WebAssembly/WASI/blob/main/phases/snapshot/docs.md#-random_getbuf-pointeru8-buf_len-size---errno
//! [WebAssembly support]: #webassembly-support
//! [`wasm-bindgen`]: https://github.com/rustwasm/wasm-bindgen
//! [`module`]: https://rustwasm.github.io/wasm-bindgen/reference/attributes/on-js-imports/module.html
//! [CommonJS modules]: https://nodejs.org/api/modules.html
//! [ES modules]: https://nodejs.org/api/esm.html
//! [`sys_read_entropy`]: https://github.com/hermit-os/kernel/blob/315f58ff5efc81d9bf0618af85a59963ff55f8b1/src/syscalls/entropy.rs#L47-L55
//! [platform-support]: https://doc.rust-lang.org/stable/rustc/platform-support.html

#![doc(
    html_logo_url = "https://www.rust-lang.org/logos/rust-logo-128x128-blk.png",
    html_favicon_url = "https://www.rust-lang.org/favicon.ico",
    html_root_url = "https://docs.rs/getrandom/0.2.17"
)]
#![no_std]
#![warn(rust_2018_idioms, unused_lifetimes, missing_docs)]
#![cfg_attr(docsrs, feature(doc_cfg))]

#[macro_use]
extern crate cfg_if;

use crate::util::{slice_as_uninit_mut, slice_assume_init_mut};
use core::mem::MaybeUninit;

mod error;
mod util;
// To prevent a breaking change when targets are added, we always export the
// register_custom_getrandom macro, so old Custom RNG crates continue to build.
#[cfg(feature = "custom")]
mod custom;
#[cfg(feature = "std")]
mod error_impls;

pub use crate::error::Error;

// System-specific implementations.
//
// These should all provide getrandom_inner with the signature
// `fn getrandom_inner(dest: &mut [MaybeUninit<u8>]) -> Result<(), Error>`.
// The function MUST fully initialize `dest` when `Ok(())` is returned.
// The function MUST NOT ever write uninitialized bytes into `dest`,
// regardless of what value it returns.
cfg_if! {
    if #[cfg(any(target_os = "haiku", target_os = "redox", target_os = "nto", target_os = "aix"))] {
        mod util_libc;
        #[path = "use_file.rs"] mod imp;
    } else if #[cfg(any(
        target_os = "macos",
        target_os = "openbsd",
        target_os = "vita",
        target_os = "emscripten",
    ))] {
        mod util_libc;
        #[path = "getentropy.rs"] mod imp;
    } else if #[cfg(any(
        target_os = "dragonfly",
        target_os = "freebsd",
        target_os = "hurd",
        target_os = "illumos",
        // Check for target_arch = "arm" to only include the 3DS. Does not
        // include the Nintendo Switch (which is target_arch = "aarch64").
        all(target_os = "horizon", target_arch = "arm"),
        target_os = "cygwin",
    ))] {
        mod util_libc;
        #[path = "getrandom.rs"] mod imp;
    } else if #[cfg(all(
        not(feature = "linux_disable_fallback"),
        any(
            // Rust supports Android API level 19 (KitKat) [0] and the next upgrade targets
            // level 21 (Lollipop) [1], while `getrandom(2)` was added only in
            // level 23 (Marshmallow). Note that it applies only to the "old" `target_arch`es,
            // RISC-V Android targets sufficiently new API level, same will apply for potential
            // new Android `target_arch`es.
            // [0]: https://blog.rust-lang.org/2023/01/09/android-ndk-update-r25.html
            // [1]: https://github.com/rust-lang/rust/pull/120593
            all(
                target_os = "android",
                any(
                    target_arch = "aarch64",
                    target_arch = "arm",
                    target_arch = "x86",
                    target_arch = "x86_64",
                ),
            ),
            // Only on these `target_arch`es Rust supports Linux kernel versions (3.2+)
            // that precede the version (3.17) in which `getrandom(2)` was added:
            // https://doc.rust-lang.org/stable/rustc/platform-support.html
            all(
                target_os = "linux",
                any(
                    target_arch = "aarch64",
                    target_arch = "arm",
                    target_arch = "powerpc",
                    target_arch = "powerpc64",
                    target_arch = "s390x",
                    target_arch = "x86",
                    target_arch = "x86_64",
                    // Minimum supported Linux kernel version for MUSL targets
                    // is not specified explicitly (as of Rust 1.77) and they
                    // are used in practice to target pre-3.17 kernels.
                    target_env = "musl",
                ),
            )
        ),
    ))] {
        mod util_libc;
        mod use_file;
        mod lazy;
        #[path = "linux_android_with_fallback.rs"] mod imp;
    } else if #[cfg(any(target_os = "android", target_os = "linux"))] {
        mod util_libc;
        #[path = "linux_android.rs"] mod imp;
    } else if #[cfg(target_os = "solaris")] {
        mod util_libc;
        #[path = "solaris.rs"] mod imp;
    } else if #[cfg(target_os = "netbsd")] {
        mod util_libc;
        #[path = "netbsd.rs"] mod imp;
    } else if #[cfg(target_os = "fuchsia")] {
        #[path = "fuchsia.rs"] mod imp;
    } else if #[cfg(any(target_os = "ios", target_os = "visionos", target_os = "watchos", target_os = "tvos"))] {
        #[path = "apple-other.rs"] mod imp;
    } else if #[cfg(all(target_arch = "wasm32", target_os = "wasi"))] {
        #[path = "wasi.rs"] mod imp;
    } else if #[cfg(target_os = "hermit")] {
        #[path = "hermit.rs"] mod imp;
    } else if #[cfg(target_os = "vxworks")] {
        mod util_libc;
        #[path = "vxworks.rs"] mod imp;
    } else if #[cfg(target_os = "solid_asp3")] {
        #[path = "solid.rs"] mod imp;
    } else if #[cfg(target_os = "espidf")] {
        #[path = "espidf.rs"] mod imp;
    } else if #[cfg(windows)] {
        #[path = "windows.rs"] mod imp;
    } else if #[cfg(all(target_arch = "x86_64", target_env = "sgx"))] {
        mod lazy;
        #[path = "rdrand.rs"] mod imp;
    } else if #[cfg(all(feature = "rdrand",
                        any(target_arch = "x86_64", target_arch = "x86")))] {
        mod lazy;
        #[path = "rdrand.rs"] mod imp;
    } else if #[cfg(all(feature = "js",
                        any(target_arch = "wasm32", target_arch = "wasm64"),
                        target_os = "unknown"))] {
        #[path = "js.rs"] mod imp;
    } else if #[cfg(feature = "custom")] {
        use custom as imp;
    } else if #[cfg(all(any(target_arch = "wasm32", target_arch = "wasm64"),
                        target_os = "unknown"))] {
        compile_error!("the wasm*-unknown-unknown targets are not supported by \
                        default, you may need to enable the \"js\" feature. \
                        For more information see: \
                        https://docs.rs/getrandom/#webassembly-support");
    } else {
        compile_error!("target is not supported, for more information see: \
                        https://docs.rs/getrandom/#unsupported-targets");
    }
}

/// Fill `dest` with random bytes from the system's preferred random number
/// source.
///
/// This function returns an error on any failure, including partial reads. We
/// make no guarantees regarding the contents of `dest` on error. If `dest` is
/// empty, `getrandom` immediately returns success, making no calls to the
/// underlying operating system.
///
/// Blocking is possible, at least during early boot; see module documentation.
///
/// In general, `getrandom` will be fast enough for interactive usage, though
/// significantly slower than a user-space CSPRNG; for the latter consider
/// [`rand::thread_rng`](https://docs.rs/rand/*/rand/fn.thread_rng.html).
#[inline]
pub fn getrandom(dest: &mut [u8]) -> Result<(), Error> {
    // SAFETY: The `&mut MaybeUninit<_>` reference doesn't escape, and
    // `getrandom_uninit` guarantees it will never de-initialize any part of
    // `dest`.
    getrandom_uninit(unsafe { slice_as_uninit_mut(dest) })?;
    Ok(())
}

/// Version of the `getrandom` function which fills `dest` with random bytes
/// returns a mutable reference to those bytes.
///
/// On successful completion this function is guaranteed to return a slice
/// which points to the same memory as `dest` and has the same length.
/// In other words, it's safe to assume that `dest` is initialized after
/// this function has returned `Ok`.
///
/// No part of `dest` will ever be de-initialized at any point, regardless
/// of what is returned.
///
/// # Examples
///
/// ```ignore
/// # // We ignore this test since `uninit_array` is unstable.
/// #![feature(maybe_uninit_uninit_array)]
/// # fn main() -> Result<(), getrandom::Error> {
/// let mut buf = core::mem::MaybeUninit::uninit_array::<1024>();
/// let buf: &mut [u8] = getrandom::getrandom_uninit(&mut buf)?;
/// # Ok(()) }
/// ```
#[inline]
pub fn getrandom_uninit(dest: &mut [MaybeUninit<u8>]) -> Result<&mut [u8], Error> {
    if !dest.is_empty() {
        imp::getrandom_inner(dest)?;
    }
    // SAFETY: `dest` has been fully initialized by `imp::getrandom_inner`
    // since it returned `Ok`.
    Ok(unsafe { slice_assume_init_mut(dest) })
}
