//! Implementation for Windows
use crate::Error;
use core::{ffi::c_void, mem::MaybeUninit, num::NonZeroU32, ptr};

const BCRYPT_USE_SYSTEM_PREFERRED_RNG: u32 = 0x00000002;

#[link(name = "bcrypt")]
extern "system" {
    fn BCryptGenRandom(
        hAlgorithm: *mut c_void,
        pBuffer: *mut u8,
        cbBuffer: u32,
        dwFlags: u32,
    ) -> i32;
}

// Forbidden when targetting UWP
#[cfg(not(target_vendor = "uwp"))]
#[link(name = "advapi32")]
extern "system" {
    #[link_name = "SystemFunction036"]
    fn RtlGenRandom(RandomBuffer: *mut c_void, RandomBufferLength: u32) -> u8;
}

pub fn getrandom_inner(dest: &mut [MaybeUninit<u8>]) -> Result<(), Error> {
    // Prevent overflow of u32
    for chunk in dest.chunks_mut(u32::max_value() as usize) {
        // BCryptGenRandom was introduced in Windows Vista
        let ret = unsafe {
            BCryptGenRandom(
                ptr::null_mut(),
                chunk.as_mut_ptr() as *mut u8,
                chunk.len() as u32,
                BCRYPT_USE_SYSTEM_PREFERRED_RNG,
            )
        };
        let ret = ret as u32;
        // NTSTATUS codes use the two highest bits for severity status.
        if ret >> 30 == 0b11 {
            // Failed. Try RtlGenRandom as a fallback.
            #[cfg(not(target_vendor = "uwp"))]
            {
                let ret =
                    unsafe { RtlGenRandom(chunk.as_mut_ptr() as *mut c_void, chunk.len() as u32) };
                if ret != 0 {
                    continue;
                }
            }
            // We zeroize the highest bit, so the error code will reside
            // inside the range designated for OS codes.
            let code = ret ^ (1 << 31);
            // SAFETY: the second highest bit is always equal to one,
            // so it's impossible to get zero. Unfortunately the type
            // system does not have a way to express this yet.
            let code = unsafe { NonZeroU32::new_unchecked(code) };
            return Err(Error::from(code));
        }
    }
    Ok(())
}
