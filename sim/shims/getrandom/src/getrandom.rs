//! Implementation using getrandom(2).
//!
//! Available since:
//!   - Linux Kernel 3.17, Glibc 2.25, Musl 1.1.20
//!   - Android API level 23 (Marshmallow)
//!   - NetBSD 10.0
//!   - FreeBSD 12.0
//!   - illumos since Dec 2018
//!   - DragonFly 5.7
//!   - Hurd Glibc 2.31
//!   - shim-3ds since Feb 2022
//!
//! For these platforms, we always use the default pool and never set the
//! GRND_RANDOM flag to use the /dev/random pool. On Linux/Android/Hurd, using
//! GRND_RANDOM is not recommended. On NetBSD/FreeBSD/Dragonfly/3ds, it does
//! nothing. On illumos, the default pool is used to implement getentropy(2),
//! so we assume it is acceptable here.
use crate::{util_libc::sys_fill_exact, Error};
use core::mem::MaybeUninit;

pub fn getrandom_inner(dest: &mut [MaybeUninit<u8>]) -> Result<(), Error> {
    sys_fill_exact(dest, |buf| unsafe {
        libc::getrandom(buf.as_mut_ptr() as *mut libc::c_void, buf.len(), 0)
    })
}
