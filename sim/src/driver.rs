//! Parent/worker process orchestration, shrinking, replay files, evidence files.

use crate::core::*;
use serde_json::{json, Value};
use std::{
    collections::{BTreeMap, BTreeSet},
    io::{BufRead, BufReader, Write},
    process::{Command, Stdio},
    time::Instant,
};

pub fn verif_dir() -> String {
    std::env::var("VERIF_DIR").unwrap_or_else(|_| "/verif".to_string())
}

pub struct Known {
    pub property: String,
    pub clause: String,
    pub tags: Vec<String>,
    pub what: String,
}

pub fn load_known(property: &str) -> Vec<Known> {
    let path = format!("{}/known_findings.json", verif_dir());
    let Ok(s) = std::fs::read_to_string(&path) else { return vec![] };
    let Ok(v) = serde_json::from_str::<Value>(&s) else {
        eprintln!("HARNESS-ERROR: {path} is not valid JSON");
        std::process::exit(2);
    };
    let mut out = vec![];
    for f in v["findings"].as_array().cloned().unwrap_or_default() {
        if f["status"].as_str() != Some("open") || f["property"].as_str() != Some(property) {
            continue;
        }
        out.push(Known {
            property: property.to_string(),
            clause: f["clause"].as_str().unwrap_or("").to_string(),
            tags: f["tags"].as_array().map(|a| a.iter().filter_map(|t| t.as_str().map(String::from)).collect()).unwrap_or_default(),
            what: f["what"].as_str().unwrap_or("").to_string(),
        });
    }
    out
}

pub fn known_match(known: &[Known], v: &Violation) -> Option<usize> {
    known.iter().position(|k| k.clause == v.clause && k.tags.iter().all(|t| v.tags.contains(t)))
}

fn map_json<K: AsRef<str>>(m: &BTreeMap<K, u64>) -> Value {
    Value::Object(m.iter().map(|(k, v)| (k.as_ref().to_string(), json!(v))).collect())
}
fn merge_into(dst: &mut BTreeMap<String, u64>, src: &Value) {
    if let Some(o) = src.as_object() {
        for (k, v) in o {
            *dst.entry(k.clone()).or_insert(0) += v.as_u64().unwrap_or(0);
        }
    }
}

/// Worker: executes runs `start, start+step, ...` below `end`, prints one JSON summary line.
pub fn worker(spec: &'static CheckSpec, tier: Tier, seed: u64, start: u64, end: u64, step: u64, cap_s: u64) {
    let t0 = Instant::now();
    let known = load_known(spec.id);
    let mut runs = 0u64;
    let mut fps: Vec<String> = vec![];
    let mut faults: BTreeMap<String, u64> = BTreeMap::new();
    let mut counters: BTreeMap<String, u64> = BTreeMap::new();
    let mut probes: BTreeMap<String, u64> = BTreeMap::new();
    let mut per_scenario: BTreeMap<String, u64> = BTreeMap::new();
    let mut sim_ns: u128 = 0;
    let mut steps = 0u64;
    let mut samples: Vec<Value> = vec![];
    let mut violations: Vec<Value> = vec![];
    let mut known_hits: BTreeMap<usize, u64> = BTreeMap::new();
    let mut capped = false;
    let mut i = start;
    while i < end {
        if t0.elapsed().as_secs() >= cap_s {
            capped = true;
            break;
        }
        let sc = spec.scenario_for(i);
        let out = execute(spec, sc, tier, seed, i, None);
        runs += 1;
        *per_scenario.entry(sc.name.to_string()).or_insert(0) += 1;
        for (k, v) in &out.faults {
            *faults.entry(k.to_string()).or_insert(0) += v;
        }
        for (k, v) in &out.counters {
            *counters.entry(k.to_string()).or_insert(0) += v;
        }
        for (k, v) in &out.probes {
            *probes.entry(k.to_string()).or_insert(0) += v;
        }
        sim_ns += out.sim_ns as u128;
        steps += out.steps;
        if out.nontrivial {
            fps.push(format!("{:016x}", out.fingerprint));
        }
        if samples.len() < 2 && (out.nontrivial || i + step >= end) {
            samples.push(json!({
                "run": i, "scenario": sc.name, "seed": seed,
                "first_events": out.trace.iter().take(14).collect::<Vec<_>>(),
                "events_total": out.steps,
                "faults": map_json(&out.faults),
                "extra": out.sample,
            }));
        }
        if let Some(v) = &out.violation {
            if let Some(k) = known_match(&known, v) {
                *known_hits.entry(k).or_insert(0) += 1;
            } else {
                violations.push(json!({
                    "run": i, "scenario": sc.name, "violation": violation_json(v),
                    "tape": out.tape, "fingerprint": format!("{:016x}", out.fingerprint),
                }));
                break; // this worker stops at its first unlisted violation
            }
        }
        i += step;
    }
    let summary = json!({
        "runs": runs, "capped": capped, "fingerprints": fps, "faults": faults, "counters": counters, "probes": probes,
        "per_scenario": per_scenario, "sim_ns": sim_ns.to_string(), "steps": steps, "samples": samples,
        "violations": violations,
        "known_hits": known_hits.iter().map(|(k, v)| json!([k, v])).collect::<Vec<_>>(),
        "wall_s": t0.elapsed().as_secs_f64(),
    });
    let so = std::io::stdout();
    let mut l = so.lock();
    let _ = writeln!(l, "{}", summary);
}

pub struct ParentOpts {
    pub tier: Tier,
    pub seed: u64,
    pub workers: u64,
    pub runs: Option<u64>,
    pub cap_s: Option<u64>,
    pub write_evidence: bool,
}

fn write_json(path: &str, v: &Value) {
    if let Some(dir) = std::path::Path::new(path).parent() {
        let _ = std::fs::create_dir_all(dir);
    }
    let tmp = format!("{path}.tmp");
    std::fs::write(&tmp, serde_json::to_string_pretty(v).unwrap() + "\n").expect("write json");
    std::fs::rename(&tmp, path).expect("rename json");
}

/// Parent: fan out to worker processes, merge, shrink + report violations, write evidence.
pub fn parent(spec: &'static CheckSpec, opts: ParentOpts) -> i32 {
    let t0 = Instant::now();
    let exe = std::env::current_exe().expect("current exe");
    let total = opts.runs.unwrap_or(match opts.tier {
        Tier::Quick => spec.runs_quick,
        Tier::Thorough => spec.runs_thorough,
    });
    let cap = opts.cap_s.unwrap_or(match opts.tier {
        Tier::Quick => spec.cap_quick_s,
        Tier::Thorough => spec.cap_thorough_s,
    });
    let w = opts.workers.max(1).min(total.max(1));
    println!("# dsim check={} tier={} seed={} runs={} workers={} cap_s={}", spec.id, opts.tier.name(), opts.seed, total, w, cap);
    let mut children = vec![];
    for k in 0..w {
        let child = Command::new(&exe)
            .args([
                "worker", spec.id, "--tier", opts.tier.name(), "--seed", &opts.seed.to_string(),
                "--start", &k.to_string(), "--end", &total.to_string(), "--step", &w.to_string(), "--cap", &cap.to_string(),
            ])
            .stdout(Stdio::piped())
            .stderr(Stdio::inherit())
            .spawn()
            .expect("spawn worker");
        children.push(child);
    }
    let known = load_known(spec.id);
    let mut runs = 0u64;
    let mut fps: BTreeSet<String> = BTreeSet::new();
    let mut faults = BTreeMap::new();
    let mut counters = BTreeMap::new();
    let mut probes = BTreeMap::new();
    let mut per_scenario = BTreeMap::new();
    let mut sim_ns: u128 = 0;
    let mut steps = 0u64;
    let mut samples: Vec<Value> = vec![];
    let mut violations: Vec<Value> = vec![];
    let mut known_hits: BTreeMap<usize, u64> = BTreeMap::new();
    let mut capped = false;
    let mut harness_error = false;
    for mut c in children {
        let out = c.stdout.take().unwrap();
        let mut got = false;
        for line in BufReader::new(out).lines().map_while(Result::ok) {
            let Ok(v) = serde_json::from_str::<Value>(&line) else { continue };
            if v.get("runs").is_none() {
                continue;
            }
            got = true;
            runs += v["runs"].as_u64().unwrap_or(0);
            capped |= v["capped"].as_bool().unwrap_or(false);
            for f in v["fingerprints"].as_array().cloned().unwrap_or_default() {
                if let Some(s) = f.as_str() {
                    fps.insert(s.to_string());
                }
            }
            merge_into(&mut faults, &v["faults"]);
            merge_into(&mut counters, &v["counters"]);
            merge_into(&mut probes, &v["probes"]);
            merge_into(&mut per_scenario, &v["per_scenario"]);
            sim_ns += v["sim_ns"].as_str().and_then(|s| s.parse::<u128>().ok()).unwrap_or(0);
            steps += v["steps"].as_u64().unwrap_or(0);
            if samples.len() < 4 {
                samples.extend(v["samples"].as_array().cloned().unwrap_or_default().into_iter().take(1));
            }
            violations.extend(v["violations"].as_array().cloned().unwrap_or_default());
            for kh in v["known_hits"].as_array().cloned().unwrap_or_default() {
                *known_hits.entry(kh[0].as_u64().unwrap_or(0) as usize).or_insert(0) += kh[1].as_u64().unwrap_or(0);
            }
        }
        let status = c.wait().expect("wait worker");
        if !status.success() || !got {
            eprintln!("HARNESS-ERROR: worker exited with {status} (summary received: {got})");
            harness_error = true;
        }
    }
    if harness_error {
        return 2;
    }
    // Report known findings that were hit.
    for (k, n) in &known_hits {
        if let Some(kf) = known.get(*k) {
            println!("KNOWN-FINDING: property={} {} (clause {}, hit in {} runs)", spec.id, kf.what, kf.clause, n);
        }
    }
    let mut exit = 0;
    let mut replay_paths = vec![];
    if !violations.is_empty() {
        violations.sort_by_key(|v| v["run"].as_u64().unwrap_or(u64::MAX));
        // one report per distinct clause, smallest run first
        let mut seen = BTreeSet::new();
        for v in &violations {
            let clause = v["violation"]["clause"].as_str().unwrap_or("").to_string();
            if !seen.insert(clause.clone()) || seen.len() > 3 {
                continue;
            }
            let run = v["run"].as_u64().unwrap();
            let scn = v["scenario"].as_str().unwrap().to_string();
            let tape: Vec<u32> = v["tape"].as_array().unwrap().iter().map(|x| x.as_u64().unwrap() as u32).collect();
            let path = shrink_and_write(spec, opts.tier, opts.seed, run, &scn, &clause, tape);
            println!("VIOLATION property={} replay={}", spec.id, path);
            replay_paths.push(path);
            exit = 1;
        }
    }
    let wall = t0.elapsed().as_secs_f64();
    if opts.write_evidence {
        let sim_s = (sim_ns / 1_000_000) as f64 / 1000.0;
        let ev = json!({
            "property_id": spec.id,
            "tier": opts.tier.name(),
            "seed": opts.seed,
            "level": spec.level,
            "coverage": {
                "evaluations": runs,
                "distinct_nontrivial": fps.len(),
                "rule": spec.rule,
                "samples": samples,
                "exhaustive": false,
                "runs_requested": total,
                "stopped_by_wall_clock_cap": capped,
                "runs_per_hour": if wall > 0.0 { (runs as f64 / wall * 3600.0) as u64 } else { 0 },
                "seeds_per_hour_note": "one seed (VERIF_SEED) fans out to `evaluations` independent runs; each run = PRNG(seed, check, run index)",
                "simulated_seconds_total": sim_s,
                "events_total": steps,
                "fault_counts": faults,
                "oracle_and_workload_counters": counters,
                "probe_hits": probes,
                "runs_per_scenario": per_scenario,
                "components_real": spec.components_real,
                "components_stub": spec.components_stub,
                "worker_processes": w,
                "known_finding_hits": known_hits.iter().map(|(k, n)| json!({"finding": known.get(*k).map(|k| k.what.clone()), "runs": n})).collect::<Vec<_>>(),
                "replays": replay_paths,
                "enumerated_subspace": spec.enumerated.map(|(name, cases)| {
                    let executed = per_scenario.get(name).copied().unwrap_or(0);
                    // thorough: case = (scenario run index) mod cases, so `cases` consecutive runs cover it;
                    // quick (C02): a fixed-stride sample
                    let complete = executed >= cases && (opts.tier == Tier::Thorough || spec.id == "C03");
                    json!({"scenario": name, "cases": cases, "runs_of_scenario": executed, "every_case_executed": complete})
                }),
            },
            "assumptions": spec.assumptions,
            "wall_s": wall,
            "violations": violations.len(),
        });
        write_json(&format!("{}/evidence/{}.json", verif_dir(), spec.id), &ev);
    }
    println!(
        "# done check={} runs={} distinct_nontrivial={} sim_s={:.1} wall_s={:.1} violations={} exit={}",
        spec.id, runs, fps.len(), (sim_ns / 1_000_000) as f64 / 1000.0, wall, violations.len(), exit
    );
    exit
}

fn try_tape(spec: &'static CheckSpec, sc: &'static Scenario, tier: Tier, seed: u64, run: u64, tape: &[u32], clause: &str) -> Option<RunOutput> {
    let out = execute(spec, sc, tier, seed, run, Some(tape.to_vec()));
    match &out.violation {
        Some(v) if v.clause == clause => Some(out),
        _ => None,
    }
}

/// Minimise the failing tape (same oracle clause must keep failing), write the replay file, and
/// confirm in a fresh process that it reproduces.
fn shrink_and_write(spec: &'static CheckSpec, tier: Tier, seed: u64, run: u64, scn: &str, clause: &str, tape: Vec<u32>) -> String {
    let sc = spec.scenario_named(scn).expect("scenario");
    let t0 = Instant::now();
    let budget = std::time::Duration::from_secs(if tier == Tier::Quick { 25 } else { 90 });
    let mut best = tape.clone();
    let mut best_out = try_tape(spec, sc, tier, seed, run, &best, clause);
    let mut attempts = 0u64;
    if best_out.is_none() {
        // replaying the recorded tape in this process did not reproduce: report unshrunk
        eprintln!("HARNESS-WARNING: recorded tape did not reproduce in-process for {} run {}", spec.id, run);
    } else {
        // use the tape actually consumed
        best = best_out.as_ref().unwrap().tape.clone();
        let mut progress = true;
        while progress && t0.elapsed() < budget {
            progress = false;
            // 1. truncate (binary search on length)
            let (mut lo, mut hi) = (0usize, best.len());
            while lo < hi && t0.elapsed() < budget {
                let mid = (lo + hi) / 2;
                attempts += 1;
                if let Some(o) = try_tape(spec, sc, tier, seed, run, &best[..mid], clause) {
                    best = best[..mid].to_vec();
                    best_out = Some(o);
                    hi = mid;
                    progress = true;
                } else {
                    lo = mid + 1;
                }
            }
            // 2. delete chunks
            let mut size = (best.len() / 2).max(1);
            while size >= 1 && t0.elapsed() < budget {
                let mut i = 0;
                while i + size <= best.len() && t0.elapsed() < budget {
                    let mut cand = best.clone();
                    cand.drain(i..i + size);
                    attempts += 1;
                    if let Some(o) = try_tape(spec, sc, tier, seed, run, &cand, clause) {
                        best = cand;
                        best_out = Some(o);
                        progress = true;
                    } else {
                        i += size;
                    }
                }
                if size == 1 {
                    break;
                }
                size /= 2;
            }
            // 3. zero, then halve, individual values
            let mut i = 0;
            while i < best.len() && t0.elapsed() < budget {
                if best[i] != 0 {
                    for cand_v in [0, best[i] / 2, best[i] - 1] {
                        if cand_v >= best[i] {
                            continue;
                        }
                        let mut cand = best.clone();
                        cand[i] = cand_v;
                        attempts += 1;
                        if let Some(o) = try_tape(spec, sc, tier, seed, run, &cand, clause) {
                            best = cand;
                            best_out = Some(o);
                            progress = true;
                            break;
                        }
                    }
                }
                i += 1;
            }
        }
        // strip trailing zeros (an exhausted tape yields 0)
        while best.last() == Some(&0) {
            let mut cand = best.clone();
            cand.pop();
            if let Some(o) = try_tape(spec, sc, tier, seed, run, &cand, clause) {
                best = cand;
                best_out = Some(o);
            } else {
                break;
            }
        }
    }
    let (trace, fp, viol, faults) = match &best_out {
        Some(o) => (o.trace.clone(), format!("{:016x}", o.fingerprint), o.violation.clone(), map_json(&o.faults)),
        None => (vec![], String::new(), None, json!({})),
    };
    let path = format!("{}/replays/{}-s{}-r{}-{}.json", verif_dir(), spec.id, seed, run, clause.replace(|c: char| !c.is_ascii_alphanumeric(), "_"));
    let file = json!({
        "property": spec.id,
        "scenario": scn,
        "tier": tier.name(),
        "seed": seed,
        "run": run,
        "clause": clause,
        "violation": viol.as_ref().map(violation_json),
        "log_hash": fp,
        "original_tape_len": tape.len(),
        "shrink_attempts": attempts,
        "tape": best,
        "faults": faults,
        "trace": trace,
        "replay_cmd": format!("./check {} --replay {}", spec.id, path),
    });
    write_json(&path, &file);
    // confirm in a fresh process
    let exe = std::env::current_exe().expect("exe");
    let st = Command::new(exe).args(["replay", &path, "--quiet"]).status();
    match st {
        Ok(s) if s.code() == Some(1) => {}
        other => eprintln!("HARNESS-WARNING: fresh-process replay of {path} returned {other:?}"),
    }
    path
}

/// Replay a file: exit 1 + VIOLATION line if the same clause fails with the same log hash,
/// 0 if nothing fails, 3 if it fails differently.
pub fn replay(path: &str, quiet: bool, lookup: impl Fn(&str) -> Option<&'static CheckSpec>) -> i32 {
    let Ok(s) = std::fs::read_to_string(path) else {
        eprintln!("HARNESS-ERROR: cannot read {path}");
        return 2;
    };
    let Ok(v) = serde_json::from_str::<Value>(&s) else {
        eprintln!("HARNESS-ERROR: {path} is not JSON");
        return 2;
    };
    let Some(spec) = lookup(v["property"].as_str().unwrap_or("")) else {
        eprintln!("HARNESS-ERROR: unknown property in {path}");
        return 2;
    };
    let Some(sc) = spec.scenario_named(v["scenario"].as_str().unwrap_or("")) else {
        eprintln!("HARNESS-ERROR: unknown scenario in {path}");
        return 2;
    };
    let tier = if v["tier"].as_str() == Some("thorough") { Tier::Thorough } else { Tier::Quick };
    let seed = v["seed"].as_u64().unwrap_or(1);
    let run = v["run"].as_u64().unwrap_or(0);
    let tape: Vec<u32> = v["tape"].as_array().map(|a| a.iter().map(|x| x.as_u64().unwrap_or(0) as u32).collect()).unwrap_or_default();
    let out = execute(spec, sc, tier, seed, run, Some(tape));
    if !quiet {
        for l in &out.trace {
            println!("  {l}");
        }
    }
    if !quiet {
        println!("# replay: probes={:?} faults={:?} counters={:?}", out.probes, out.faults, out.counters);
    }
    match &out.violation {
        Some(viol) => {
            let same_clause = Some(viol.clause.as_str()) == v["clause"].as_str();
            let same_hash = Some(format!("{:016x}", out.fingerprint).as_str()) == v["log_hash"].as_str();
            if !quiet {
                println!("# replay: clause={} detail={} same_clause={} same_log_hash={}", viol.clause, viol.detail, same_clause, same_hash);
                println!("VIOLATION property={} replay={}", spec.id, path);
            }
            if same_clause && same_hash {
                1
            } else if same_clause {
                if !quiet {
                    println!("# replay: same clause but a different event log (code under test changed?)");
                }
                1
            } else {
                3
            }
        }
        None => {
            if !quiet {
                println!("# replay: no violation (property holds on this tape with the current code)");
            }
            0
        }
    }
}
