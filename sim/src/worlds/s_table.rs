//! C12 on W-S: routing-table admission and update policy of the real service under generated
//! sequences of session reports, discovered records, pongs, request failures and user calls.

use super::sworld::*;
use super::table::log2;
use crate::{core::Ctx, ident};
use discv5::{
    enr::NodeId,
    verif::{ConnectionDirection, HandlerIn, HandlerOut, RequestBody, RequestId, Response, ResponseBody},
    Enr, ListenConfig, RequestError,
};
use std::{
    collections::{BTreeMap, BTreeSet},
    net::{Ipv4Addr, Ipv6Addr},
};

#[derive(Clone, Copy, PartialEq, Debug)]
enum Mode {
    V4,
    V6,
    Dual,
}

fn filter_no_tcp(enr: &Enr) -> bool {
    enr.tcp4().is_none()
}
fn filter_odd_seq(enr: &Enr) -> bool {
    enr.seq() % 2 == 1
}

/// Record shapes. `shape`: 0 v4, 1 none, 2 v6 only, 3 both, 4 v4-mapped v6 only, 5 v4 + tcp (refused by filter_no_tcp), 6 ip4 without udp port
fn shaped(identity: usize, seq: u64, shape: u32) -> Enr {
    let a = peer_addr(identity);
    let ip4 = match a.ip() {
        std::net::IpAddr::V4(v) => v.octets(),
        _ => unreachable!(),
    };
    let mut ip6 = [0u8; 16];
    ip6[0] = 0x20;
    ip6[1] = 0x01;
    ip6[14] = (identity / 200) as u8;
    ip6[15] = (identity % 200) as u8 + 1;
    let mapped = Ipv4Addr::from(ip4).to_ipv6_mapped().octets();
    let spec = match shape {
        0 => ident::RecSpec { ident: identity, seq, ip4: Some((ip4, 9000)), ip6: None, pad: 0 },
        1 => ident::RecSpec { ident: identity, seq, ip4: None, ip6: None, pad: 0 },
        2 => ident::RecSpec { ident: identity, seq, ip4: None, ip6: Some((ip6, 9000)), pad: 0 },
        3 => ident::RecSpec { ident: identity, seq, ip4: Some((ip4, 9000)), ip6: Some((ip6, 9000)), pad: 0 },
        4 => ident::RecSpec { ident: identity, seq, ip4: None, ip6: Some((mapped, 9000)), pad: 0 },
        // an IPv4 address without a UDP port: not contactable over IPv4
        6 => ident::RecSpec { ident: identity, seq, ip4: Some((ip4, 0)), ip6: None, pad: 0 },
        _ => ident::RecSpec { ident: identity, seq, ip4: Some((ip4, 9000)), ip6: None, pad: 7 },
    };
    if shape == 5 {
        // tcp4 field: built separately (the spec has no tcp field): use the pad marker to cache
        return tcp_record(identity, seq, ip4);
    }
    ident::record(spec)
}

fn tcp_record(identity: usize, seq: u64, ip4: [u8; 4]) -> Enr {
    use std::sync::{Mutex, OnceLock};
    static C: OnceLock<Mutex<BTreeMap<(usize, u64), Enr>>> = OnceLock::new();
    let c = C.get_or_init(|| Mutex::new(BTreeMap::new()));
    if let Some(e) = c.lock().unwrap().get(&(identity, seq)) {
        return e.clone();
    }
    let key = ident::pool()[identity].key();
    let e = crate::interpose::with_rng(crate::prng::Prng::new(0x7c9 ^ (identity as u64) << 20 ^ seq), || {
        let mut b = Enr::builder();
        b.seq(seq).ip4(Ipv4Addr::from(ip4)).udp4(9000).tcp4(30303);
        b.build(&key).expect("enr")
    });
    c.lock().unwrap().insert((identity, seq), e.clone());
    e
}

/// Independent re-statement of "contactable in the node's IP mode".
fn contactable(mode: Mode, e: &Enr) -> bool {
    let v4 = e.udp4_socket().is_some();
    let v6 = e.udp6_socket().map(|s| s.ip().to_ipv4_mapped().is_none()).unwrap_or(false);
    match mode {
        Mode::V4 => v4,
        Mode::V6 => v6,
        Mode::Dual => v4 || v6,
    }
}

pub fn run(ctx: &mut Ctx) {
    block_on(ctx, |ctx| Box::pin(run_async(ctx)));
}

async fn run_async(ctx: &mut Ctx) {
    let mode = *ctx.tape.pick(&[Mode::V4, Mode::V4, Mode::V6, Mode::Dual]);
    let filter_kind = ctx.tape.choose(3);
    let listen = match mode {
        Mode::V4 => ListenConfig::Ipv4 { ip: Ipv4Addr::new(10, 1, 0, 250), port: 9000 },
        Mode::V6 => ListenConfig::Ipv6 { ip: Ipv6Addr::new(0x2001, 0, 0, 0, 0, 0, 0, 0xfa), port: 9000 },
        Mode::Dual => ListenConfig::DualStack { ipv4: Ipv4Addr::new(10, 1, 0, 250), ipv4_port: 9000, ipv6: Ipv6Addr::new(0x2001, 0, 0, 0, 0, 0, 0, 0xfa), ipv6_port: 9000 },
    };
    let mut sw = match SWorld::new(0, true, listen, |b| {
        b.disable_enr_update().ping_interval(std::time::Duration::from_secs(3));
        match filter_kind {
            1 => {
                b.table_filter(filter_no_tcp);
            }
            2 => {
                b.table_filter(filter_odd_seq);
            }
            _ => {}
        }
    })
    .await
    {
        Ok(s) => s,
        Err(e) => {
            ctx.fail("harness-error", e, &[]);
            return;
        }
    };
    let passes = |e: &Enr| -> bool {
        match filter_kind {
            1 => filter_no_tcp(e),
            2 => filter_odd_seq(e),
            _ => true,
        }
    };
    let nu = 6 + ctx.tape.choose(20) as usize;
    let universe: Vec<usize> = (8..8 + nu).collect();
    let nsteps = 10 + ctx.tape.choose(60);
    ctx.ev(format!("cfg mode={mode:?} filter={filter_kind} universe={nu} steps={nsteps}"));

    // harness state
    let mut introduced: BTreeSet<[u8; 32]> = BTreeSet::new(); // subject of Established or add_enr
    let mut only_discovered: BTreeSet<[u8; 32]> = BTreeSet::new();
    let mut cur_seq: BTreeMap<usize, (u64, u32)> = BTreeMap::new(); // identity -> (seq, shape) last presented
    let mut prev_table: BTreeMap<[u8; 32], Enr> = BTreeMap::new();
    let mut user_added: BTreeSet<[u8; 32]> = BTreeSet::new();
    let mut pending_find: Vec<(RequestId, usize, Vec<u64>, discv5::verif::NodeAddress)> = vec![];
    let mut pending_ping: Vec<(RequestId, usize, discv5::verif::NodeAddress)> = vec![];
    let mut lookups = vec![];

    for step in 0..nsteps {
        if ctx.failed() {
            break;
        }
        let id = *ctx.tape.pick(&universe);
        let nid = peer_id(id);
        let action = ctx.tape.choose(13);
        let mut user_add_now: Option<[u8; 32]> = None;
        let mut unauthenticated_query: Option<([u8; 32], Option<String>)> = None;
        let mut claimed_socket: Option<(NodeId, std::net::SocketAddr)> = None;
        match action {
            12 => {
                // an undecryptable packet claiming to come from node `id` arrives from some address (its own or
                // another one): the handler asks the service who that is. Nothing has been proven by anybody,
                // so the table entry of `id` (record, connection state) must not change.
                let before = sw.d.table_entries().into_iter().find(|(n, _, _)| *n == nid).map(|(_, e, s)| format!("seq {} {s:?}", e.seq()));
                let from = if ctx.tape.choose(2) == 0 { peer_addr(id) } else { std::net::SocketAddr::new(std::net::IpAddr::V4(Ipv4Addr::new(203, 0, 113, 1 + ctx.tape.choose(3) as u8)), 4000 + ctx.tape.choose(3) as u16) };
                let from = match (mode, from) {
                    (Mode::V6, std::net::SocketAddr::V4(a)) => std::net::SocketAddr::new(std::net::IpAddr::V6(std::net::Ipv6Addr::new(0x2001, 0xdb8, 0, 0, 0, 0, a.ip().octets()[2] as u16, a.ip().octets()[3] as u16)), a.port()),
                    (_, a) => a,
                };
                ctx.fault("unauthenticated_whoareyou_query");
                ctx.ev(format!("t={} WhoAreYou query for #{id} from {from}", now_ms()));
                let wref = discv5::verif::WhoAreYouRef::verif_new(discv5::verif::NodeAddress { node_id: nid, socket_addr: from }, [7u8; 12]);
                sw.emit(HandlerOut::WhoAreYou(wref)).await;
                unauthenticated_query = Some((nid.raw(), before));
                if from != peer_addr(id) {
                    claimed_socket = Some((nid, from));
                }
            }
            0..=3 => {
                // session established (the handler only reports records whose address is absent or equals the source)
                // like the real handler: the reported record is the newer of (attached, the one the
                // service knows); an equal sequence number means the known record itself
                let (old_seq, _) = cur_seq.get(&id).copied().unwrap_or((0, 0));
                let stored = prev_table.get(&nid.raw()).cloned();
                let base = old_seq.max(stored.as_ref().map(|e| e.seq()).unwrap_or(0)).max(1);
                let seq = base + ctx.tape.choose(3) as u64;
                let shape = *ctx.tape.pick(&[0u32, 0, 1, 2, 3, 4, 5, 6]);
                let enr = match &stored {
                    Some(e) if e.seq() == seq => e.clone(),
                    _ => shaped(id, seq, shape),
                };
                // observed source consistent with the record (or any, if the record has no address of that family)
                let src = match (mode, enr.udp4_socket(), enr.udp6_socket()) {
                    (Mode::V6, _, Some(s6)) => std::net::SocketAddr::V6(s6),
                    (_, Some(s4), _) => std::net::SocketAddr::V4(s4),
                    (_, None, Some(s6)) if mode != Mode::V4 => std::net::SocketAddr::V6(s6),
                    _ => peer_addr(id),
                };
                let dir = if ctx.tape.choose(2) == 0 { ConnectionDirection::Incoming } else { ConnectionDirection::Outgoing };
                ctx.ev(format!("t={} Established #{id} seq={seq} shape={shape} {dir:?}", now_ms()));
                cur_seq.insert(id, (seq, shape));
                introduced.insert(nid.raw());
                sw.emit(HandlerOut::Established(enr, src, dir)).await;
            }
            4 => {
                let (old_seq, _) = cur_seq.get(&id).copied().unwrap_or((0, 0));
                let seq = match ctx.tape.choose(3) {
                    0 => old_seq.max(1),
                    1 => old_seq.saturating_sub(1).max(1),
                    _ => old_seq + 1,
                };
                let shape = *ctx.tape.pick(&[0u32, 1, 2, 3, 5, 6]);
                let enr = shaped(id, seq, shape);
                let r = sw.d.add_enr(enr);
                ctx.ev(format!("t={} add_enr #{id} seq={seq} shape={shape} -> {r:?}", now_ms()));
                if r.is_ok() {
                    introduced.insert(nid.raw());
                    user_add_now = Some(nid.raw());
                    user_added.insert(nid.raw());
                }
            }
            5 => {
                let r = sw.d.remove_node(&nid);
                ctx.ev(format!("t={} remove_node #{id} -> {r}", now_ms()));
            }
            6 => {
                let r = sw.d.disconnect_node(&nid);
                ctx.ev(format!("t={} disconnect_node #{id} -> {r}", now_ms()));
            }
            7 => {
                // start a lookup so that FINDNODEs go out and NODES can come back
                let mut s = ctx.tape.choose(1 << 30) as u64;
                let mut t = [0u8; 32];
                for c in t.chunks_mut(8) {
                    c.copy_from_slice(&crate::prng::splitmix(&mut s).to_le_bytes());
                }
                ctx.ev(format!("t={} find_node(random)", now_ms()));
                lookups.push(tokio::spawn(sw.d.find_node(NodeId::new(&t))));
            }
            8 | 9 => {
                // answer a pending FINDNODE with records of the universe at the right distances
                if !pending_find.is_empty() {
                    let k = ctx.tape.choose(pending_find.len() as u32) as usize;
                    let (rid, peer, distances, from_addr) = pending_find.remove(k);
                    if ctx.tape.choose(5) == 0 {
                        ctx.fault("request_failed");
                        ctx.ev(format!("t={} #{peer} RequestFailed", now_ms()));
                        sw.emit(HandlerOut::RequestFailed(rid, RequestError::Timeout)).await;
                    } else {
                        let pid = peer_id(peer);
                        let mut nodes = vec![];
                        for &u in &universe {
                            if u != peer && distances.contains(&(log2(&pid.raw(), &peer_id(u).raw()) as u64)) && nodes.len() < 5 {
                                // discovered records: any shape, seq lower / equal / higher than what was presented before
                                let (s0, _) = cur_seq.get(&u).copied().unwrap_or((0, 0));
                                let seq = match ctx.tape.choose(3) {
                                    0 => s0.saturating_sub(1).max(1),
                                    1 => s0.max(1),
                                    _ => s0 + 1 + ctx.tape.choose(2) as u64,
                                };
                                let shape = *ctx.tape.pick(&[0u32, 0, 1, 2, 3, 4, 5, 6]);
                                if !introduced.contains(&peer_id(u).raw()) {
                                    only_discovered.insert(peer_id(u).raw());
                                }
                                nodes.push(shaped(u, seq, shape));
                            }
                        }
                        if distances.contains(&0) {
                            nodes.push(shaped(peer, cur_seq.get(&peer).map(|x| x.0).unwrap_or(1), cur_seq.get(&peer).map(|x| x.1).unwrap_or(0)));
                        }
                        ctx.fault("nodes_response_with_records");
                        ctx.ev(format!("t={} #{peer} NODES {} records for {distances:?}", now_ms(), nodes.len()));
                        let resp = Response { id: rid, body: ResponseBody::Nodes { total: 1, nodes } };
                        sw.emit(HandlerOut::Response(from_addr, Box::new(resp))).await;
                    }
                }
            }
            10 => {
                // answer a pending PING (possibly advertising a higher seq => record request)
                if !pending_ping.is_empty() {
                    let k = ctx.tape.choose(pending_ping.len() as u32) as usize;
                    let (rid, peer, from_addr) = pending_ping.remove(k);
                    if ctx.tape.choose(4) == 0 {
                        ctx.fault("request_failed");
                        ctx.ev(format!("t={} #{peer} ping RequestFailed", now_ms()));
                        sw.emit(HandlerOut::RequestFailed(rid, RequestError::Timeout)).await;
                    } else {
                        let seq = cur_seq.get(&peer).map(|x| x.0).unwrap_or(1) + ctx.tape.choose(2) as u64;
                        ctx.ev(format!("t={} #{peer} PONG seq={seq}", now_ms()));
                        let la = sw.local_addr;
                        let port = std::num::NonZeroU16::new(la.port()).unwrap();
                        let resp = Response { id: rid, body: ResponseBody::Pong { enr_seq: seq, ip: la.ip(), port } };
                        sw.emit(HandlerOut::Response(from_addr, Box::new(resp))).await;
                    }
                }
            }
            _ => {
                let ms = *ctx.tape.pick(&[5u64, 500, 3100]);
                tokio::time::sleep(std::time::Duration::from_millis(ms)).await;
                ctx.ev(format!("t={} idle {ms}ms", now_ms()));
            }
        }
        sw.settle().await;
        for m in sw.take_in() {
            if let HandlerIn::Request(contact, req) = m {
                // a socket that only an unauthenticated packet named must not be dialled as the claimed node: whoever
                // sits there can answer the dial with a bare WHOAREYOU and is then treated as that node
                if let Some((cid, caddr)) = claimed_socket {
                    if contact.node_id() == cid && contact.socket_addr() == caddr {
                        ctx.fail(
                            "c01.unauthenticated-claim-dialled-as-node",
                            format!("after an undecryptable packet claiming {} from {caddr} (not an address of its record) the service sent it a request ({}) at that socket", short(&cid), req.body),
                            &[],
                        );
                    }
                }
                let Some(peer) = ident_of(&contact.node_id()) else { continue };
                match req.body {
                    RequestBody::Ping { .. } => pending_ping.push((req.id, peer, contact.node_address())),
                    RequestBody::FindNode { distances } => pending_find.push((req.id, peer, distances, contact.node_address())),
                    RequestBody::Talk { .. } => {}
                }
            }
        }
        let _ = sw.take_events();
        // ---- the table after this step
        let entries = sw.d.table_entries();
        if let Some((qid, before)) = &unauthenticated_query {
            let after = entries.iter().find(|(n, _, _)| n.raw() == *qid).map(|(_, e, s)| format!("seq {} {s:?}", e.seq()));
            ctx.count("unauthenticated_queries_checked");
            if *before != after {
                ctx.fail(
                    "c01.table-entry-changed-by-unauthenticated-packet",
                    format!("a who-are-you query (an undecryptable packet, nothing proven) changed the routing-table entry of the claimed node from {before:?} to {after:?}"),
                    &[],
                );
            }
        }
        ctx.count("table_snapshots_checked");
        let mut now_table: BTreeMap<[u8; 32], Enr> = BTreeMap::new();
        for (nid2, enr, _status) in &entries {
            now_table.insert(nid2.raw(), enr.clone());
            if *nid2 == sw.local_id {
                ctx.fail("c12.local-node-in-table", "the local node is a routing-table entry", &[]);
            }
            if enr.node_id() != *nid2 {
                ctx.fail("c12.record-of-other-id", format!("entry {} stores a record of {}", short(nid2), short(&enr.node_id())), &[]);
            }
            if !contactable(mode, enr) {
                ctx.fail("c12.entry-not-contactable", format!("entry {} (step {step}) is not contactable in mode {mode:?}: udp4={:?} udp6={:?}", short(nid2), enr.udp4_socket(), enr.udp6_socket()), &[]);
            }
            if !passes(enr) {
                let tags: Vec<&str> = if user_added.contains(&nid2.raw()) { vec!["fails-table-filter"] } else { vec!["fails-table-filter", "via-session"] };
                ctx.fail("c12.entry-fails-table-filter", format!("entry {} seq {} does not pass the configured table filter (kind {filter_kind})", short(nid2), enr.seq()), &tags);
            }
            if !introduced.contains(&nid2.raw()) {
                ctx.fail("c12.entry-without-session-or-add", format!("{} became a routing-table entry although it only ever appeared in NODES responses", short(nid2)), &[]);
            }
            if let Some(old) = prev_table.get(&nid2.raw()) {
                if old != enr && enr.seq() <= old.seq() && user_add_now != Some(nid2.raw()) {
                    ctx.fail("c12.record-replaced-without-higher-seq", format!("stored record of {} changed from seq {} to seq {}", short(nid2), old.seq(), enr.seq()), &[]);
                }
            }
        }
        prev_table = now_table;
    }
    let in_table = prev_table.len();
    ctx.sample = Some(serde_json::json!({"entries_at_end": in_table, "only_discovered_ids": only_discovered.len()}));
    if in_table > 0 {
        ctx.nontrivial = true;
    }
    for l in lookups {
        l.abort();
    }
    sw.shutdown();
}
