//! C11 on W-S (+ service-level clauses of C09/C10): lookups on a real service whose handler is
//! scripted. Responders are honest (answer exactly as the protocol and this implementation
//! prescribe, from a neighbourhood the harness keeps for them) or malicious.

use super::sworld::*;
use super::table::log2;
use crate::core::Ctx;
use discv5::{
    enr::NodeId,
    verif::{self, ConnectionDirection, HandlerIn, HandlerOut, RequestBody, RequestId, Response, ResponseBody},
    Enr, Event, ListenConfig, RequestError,
};
use std::collections::{BTreeMap, BTreeSet};

pub struct Which {
    pub c11: bool,
    pub c09_10: bool,
}

pub fn run_c11(ctx: &mut Ctx) {
    block_on(ctx, |ctx| Box::pin(run_async(ctx, Which { c11: true, c09_10: false })));
}
pub fn run_lookup(ctx: &mut Ctx) {
    block_on(ctx, |ctx| Box::pin(run_async(ctx, Which { c11: false, c09_10: true })));
}

fn dist(a: &NodeId, b: &NodeId) -> u64 {
    log2(&a.raw(), &b.raw()) as u64
}

struct Pending {
    id: RequestId,
    peer: usize,
    distances: Vec<u64>,
    /// when the service handed the request to the handler
    t_ms: u64,
}

async fn run_async(ctx: &mut Ctx, which: Which) {
    let parallelism = 1 + ctx.tape.choose(3) as usize;
    let query_timeout_s = *ctx.tape.pick(&[60u64, 5]);
    // ban duration: the default (1 h), a short one, or None = banned for good
    let ban_knob = ctx.tape.choose(4);
    // the node's own max_nodes_response (a serving parameter; the cap on collected packets must not depend on it)
    let max_nodes_response = *ctx.tape.pick(&[16usize, 16, 4, 20, 32, 64]);
    let mut sw = match SWorld::new(0, true, ListenConfig::Ipv4 { ip: std::net::Ipv4Addr::new(10, 1, 0, 250), port: 9000 }, |b| {
        b.query_parallelism(parallelism).query_timeout(std::time::Duration::from_secs(query_timeout_s)).disable_enr_update().max_nodes_response(max_nodes_response);
        match ban_knob {
            0 => {
                b.ban_duration(None);
            }
            1 => {
                b.ban_duration(Some(std::time::Duration::from_secs(600)));
            }
            _ => {}
        }
    })
    .await
    {
        Ok(s) => s,
        Err(e) => {
            ctx.fail("harness-error", e, &[]);
            return;
        }
    };
    // universe of identities: peers of the local node + their neighbours
    let nu = 10 + ctx.tape.choose(30) as usize;
    let universe: Vec<usize> = (8..8 + nu).collect();
    // usually a small table; sometimes one with more entries than a lookup takes as seeds (k = 16)
    let ntable = if ctx.tape.choose(4) == 0 { nu.min(17 + ctx.tape.choose(20) as usize) } else { 1 + ctx.tape.choose(10.min(nu as u32)) as usize };
    let table_peers: Vec<usize> = universe.iter().copied().take(ntable).collect();
    let malicious_pct = if which.c11 { *ctx.tape.pick(&[0u32, 20, 60]) } else { *ctx.tape.pick(&[0u32, 0, 20]) };
    let fail_pct = *ctx.tape.pick(&[0u32, 10, 40]);
    ctx.ev(format!("cfg parallelism={parallelism} query_timeout={query_timeout_s}s universe={nu} table={ntable} malicious%={malicious_pct} fail%={fail_pct}"));
    for &p in &table_peers {
        let dir = if ctx.tape.choose(3) == 0 { ConnectionDirection::Incoming } else { ConnectionDirection::Outgoing };
        sw.establish(p, 1, dir).await;
    }
    sw.settle().await;
    // some peers are on the application's permit lists (by node id or by IP): the packet filter lets their packets
    // through whatever happens, but a responder that sends unrequested records is put on the ban list all the same
    if which.c11 && ctx.tape.choose(4) == 0 {
        for &u in &universe {
            match ctx.tape.choose(6) {
                0 => sw.d.permit_node(&peer_id(u)),
                1 => sw.d.permit_ip(peer_addr(u).ip()),
                _ => continue,
            }
            ctx.count("responders_on_a_permit_list");
        }
        ctx.fault("permit_list_entries");
    }
    // ---- the lookup target
    let tk = ctx.tape.choose(6);
    let target: NodeId = match tk {
        0 => peer_id(*ctx.tape.pick(&table_peers)),
        1 | 2 => {
            // adjacent to a peer: differs in one of the lowest bits => request lists containing 0
            let mut raw = peer_id(*ctx.tape.pick(&table_peers)).raw();
            raw[31] ^= 1 << ctx.tape.choose(3);
            NodeId::new(&raw)
        }
        3 => sw.local_id,
        _ => {
            let mut s = ctx.tape.choose(1 << 30) as u64;
            let mut t = [0u8; 32];
            for c in t.chunks_mut(8) {
                c.copy_from_slice(&crate::prng::splitmix(&mut s).to_le_bytes());
            }
            NodeId::new(&t)
        }
    };
    ctx.ev(format!("lookup target kind={tk} {}", short(&target)));
    let predicate_lookup = which.c09_10 && ctx.tape.choose(3) == 0;
    let lookup = if predicate_lookup { tokio::spawn(sw.d.find_node_predicate(target, Box::new(|e: &Enr| e.seq() % 2 == 1), 4)) } else { tokio::spawn(sw.d.find_node(target)) };
    let t_start = now_ms();

    let mut pending: Vec<Pending> = vec![];
    let mut asked: BTreeMap<usize, u32> = BTreeMap::new();
    let mut answered_ok: BTreeSet<usize> = BTreeSet::new();
    let mut banned_expected: BTreeSet<usize> = BTreeSet::new();
    let mut steps = 0;
    let mut result: Option<Result<Vec<Enr>, String>> = None;
    let mut lookup = Some(lookup);
    // candidates the lookup certainly learnt of: records the service accepted from answers to its requests
    let mut learnt: BTreeSet<usize> = BTreeSet::new();
    let mut t_result = 0u64;
    // requests the harness sits on (a silent peer); after the first lookup they are answered while a second
    // lookup runs: answers to requests of an ended lookup must not count for the next one
    let mut held: Vec<Pending> = vec![];
    let mut stale: BTreeSet<Vec<u8>> = BTreeSet::new();
    let mut second_lookup_started = false;
    let mut held_since = 0u64;
    let mut target = target;
    let mut t_start = t_start;
    loop {
        steps += 1;
        if ctx.failed() || steps > 4000 {
            break;
        }
        sw.settle().await;
        // collect what the service wants from the handler
        for m in sw.take_in() {
            match m {
                HandlerIn::Request(contact, req) => {
                    let Some(peer) = ident_of(&contact.node_id()) else { continue };
                    match req.body {
                        RequestBody::Ping { .. } => {
                            // the handler contract: every request gets exactly one outcome
                            let la = sw.local_addr;
                            sw.pong(peer, req.id, la, 1).await;
                        }
                        RequestBody::FindNode { distances } => {
                            ctx.ev(format!("t={} service -> n#{peer} FINDNODE {distances:?}", now_ms()));
                            *asked.entry(peer).or_insert(0) += 1;
                            if which.c09_10 && asked[&peer] > 1 {
                                ctx.fail("c09.peer-asked-twice", format!("the lookup sent its request to peer #{peer} twice"), &[]);
                            }
                            pending.push(Pending { id: req.id, peer, distances, t_ms: now_ms() });
                        }
                        RequestBody::Talk { .. } => {}
                    }
                }
                HandlerIn::Response(..) | HandlerIn::WhoAreYou(..) => {}
            }
        }
        // in flight = handed to the handler, not yet answered and (for requests the harness sits on) not yet past the
        // lookup's peer timeout (default 2 s), after which the lookup rightly stops waiting for that peer
        let now = now_ms();
        let in_flight = pending.iter().filter(|p| !stale.contains(&p.id.0)).count() + held.iter().filter(|p| !stale.contains(&p.id.0) && p.t_ms + 2000 > now).count();
        if which.c09_10 && in_flight > parallelism.max(16) {
            ctx.fail("c09.parallelism-exceeded", format!("{in_flight} FINDNODE requests in flight, parallelism {parallelism}"), &[]);
        }
        if which.c09_10 && answered_ok.len() < parallelism && in_flight > parallelism {
            ctx.fail("c09.parallelism-exceeded", format!("{in_flight} FINDNODE requests of the lookup in flight before {parallelism} answers to it had been delivered (parallelism {parallelism})"), &[]);
        }
        // has the lookup finished?
        if let Some(h) = lookup.as_ref() {
            if h.is_finished() {
                let r = lookup.take().unwrap().await;
                result = Some(match r {
                    Ok(Ok(v)) => Ok(v),
                    Ok(Err(e)) => Err(format!("{e:?}")),
                    Err(e) => Err(format!("join error {e}")),
                });
                t_result = now_ms();
                if which.c09_10 && !second_lookup_started && !predicate_lookup && !held.is_empty() && !ctx.failed() && ctx.tape.choose(2) == 0 {
                    // the first lookup is over (its result is checked now); a second one starts while requests of the
                    // first are still unanswered
                    check_lookup_result(ctx, &result, &sw.local_id, &target, predicate_lookup, &asked, &answered_ok, &learnt, t_start, t_result, query_timeout_s, pending.len());
                    second_lookup_started = true;
                    ctx.fault("second_lookup_with_stale_requests");
                    // the stale requests go (back) into the pool of answerable requests
                    pending.append(&mut held);
                    for p in pending.iter() {
                        stale.insert(p.id.0.clone());
                    }
                    asked.clear();
                    answered_ok.clear();
                    learnt.clear();
                    result = None;
                    let mut raw = target.raw();
                    raw[31] ^= 0x10;
                    raw[0] ^= 0x80;
                    target = NodeId::new(&raw);
                    ctx.ev(format!("t={} second lookup, target {} ({} requests of the first still unanswered)", now_ms(), short(&target), stale.len()));
                    lookup = Some(tokio::spawn(sw.d.find_node(target)));
                    t_start = now_ms();
                    continue;
                }
                break;
            }
        }
        if pending.is_empty() {
            // nothing to answer: let simulated time pass (peer timeouts / query timeout)
            tokio::time::sleep(std::time::Duration::from_millis(200)).await;
            // the handler contract: a request that stays unanswered is reported as failed in the end (that report is
            // also what makes the service look at its lookups again)
            if !held.is_empty() && now_ms() > held_since + 3000 {
                let p = held.remove(0);
                ctx.ev(format!("t={} n#{} -> RequestFailed(Timeout) (was silent)", now_ms(), p.peer));
                sw.emit(HandlerOut::RequestFailed(p.id, RequestError::Timeout)).await;
                held_since = now_ms();
            }
            if now_ms() > t_start + (query_timeout_s + 30) * 1000 {
                break;
            }
            continue;
        }
        // the routing table changes while the lookup runs: a node of the universe connects (and enters the table) or a
        // table entry is removed by the application; what the lookup has learnt from answers stays its own
        if which.c09_10 && ctx.tape.choose(6) == 0 {
            // (half of the time the change is aimed at a node the lookup has learnt of but not asked yet)
            let waiting: Vec<usize> = learnt.iter().copied().filter(|c| !asked.contains_key(c)).collect();
            let u = if !waiting.is_empty() && ctx.tape.choose(2) == 0 { *ctx.tape.pick(&waiting) } else { *ctx.tape.pick(&universe) };
            let in_table = sw.d.table_entries().iter().any(|(i, _, _)| *i == peer_id(u));
            if in_table {
                let r = sw.d.remove_node(&peer_id(u));
                ctx.fault("table_entry_removed_during_lookup");
                ctx.ev(format!("t={} remove_node(n#{u}) -> {r}", now_ms()));
            } else {
                ctx.fault("node_connects_during_lookup");
                ctx.ev(format!("t={} n#{u} connects (session reported)", now_ms()));
                sw.establish(u, 1, ConnectionDirection::Incoming).await;
            }
        }
        // ---- answer one pending request completely (so that events are attributable)
        let k = ctx.tape.choose(pending.len() as u32) as usize;
        if which.c09_10 && !second_lookup_started && pending.len() >= 2 && !stale.contains(&pending[k].id.0) && ctx.tape.choose(6) == 0 {
            // a silent peer: the request stays unanswered (the lookup's peer timeout deals with it)
            ctx.fault("silent_peer");
            ctx.ev(format!("t={} n#{} stays silent", now_ms(), pending[k].peer));
            let p = pending.remove(k);
            held.push(p);
            held_since = now_ms();
            continue;
        }
        let p = pending.remove(k);
        let is_stale = stale.contains(&p.id.0);
        let rid = peer_id(p.peer);
        let _ = sw.take_events();
        if ctx.tape.choose(100) < fail_pct {
            ctx.fault("request_failed");
            ctx.ev(format!("t={} n#{} -> RequestFailed(Timeout)", now_ms(), p.peer));
            sw.emit(HandlerOut::RequestFailed(p.id, RequestError::Timeout)).await;
            continue;
        }
        let malicious = ctx.tape.choose(100) < malicious_pct;
        // the responder's neighbourhood: every identity of the universe except itself
        let mut valid: Vec<Enr> = vec![];
        if p.distances.contains(&0) {
            valid.push(peer_enr(p.peer, 1));
        }
        let mut per_distance = 0;
        for &u in &universe {
            if u != p.peer && p.distances.contains(&dist(&rid, &peer_id(u))) && per_distance < max_nodes_response {
                // the requester itself is never returned by an honest node; an honest node of this implementation
                // (same configuration as the local node) returns at most max_nodes_response table records
                valid.push(peer_enr(u, 1 + (u % 2) as u64));
                per_distance += 1;
            }
        }
        let mut packets: Vec<(u64, Vec<Enr>)> = vec![];
        let mut invalid_in_first_packet = false;
        let mut any_invalid = false;
        let mut extra_after_completion: Option<Enr> = None;
        // every delivered packet is validated on arrival: an off-distance record in any of them bans
        let mut must_ban_after_delivery = false;
        if !malicious {
            // honest: split into 1..4 packets, consistent total
            let npk = (1 + ctx.tape.choose(4) as usize).min(valid.len().max(1));
            let mut chunks: Vec<Vec<Enr>> = vec![vec![]; npk];
            for (i, e) in valid.iter().enumerate() {
                chunks[i % npk].push(e.clone());
            }
            for c in chunks {
                packets.push((npk as u64, c));
            }
            // sometimes a (valid but late) packet arrives after the response completed
            if ctx.tape.choose(4) == 0 {
                let spare = universe.iter().copied().find(|u| *u != p.peer && !valid.iter().any(|e| e.node_id() == peer_id(*u)));
                if let Some(u) = spare {
                    extra_after_completion = Some(peer_enr(u, 9));
                    ctx.fault("packet_after_completion");
                }
            }
        } else {
            ctx.fault("malicious_responder");
            let kind = ctx.tape.choose(8);
            // the unrequested records a malicious responder slips in come in every shape: dialable, with an
            // endpoint of the other address family only, with an address but no port, without any endpoint
            let junk_shape = ctx.tape.choose(6);
            if junk_shape >= 3 {
                ctx.fault("unrequested_record_not_dialable");
            }
            let foreign: Vec<Enr> = universe
                .iter()
                .copied()
                .filter(|u| *u != p.peer && !p.distances.contains(&dist(&rid, &peer_id(*u))))
                .map(|u| {
                    let mut spec = peer_spec(u, 1);
                    match junk_shape {
                        3 => {
                            let mut a = [0u8; 16];
                            a[0] = 0xfd;
                            a[15] = u as u8;
                            spec.ip4 = None;
                            spec.ip6 = Some((a, 9000));
                        }
                        4 => spec.ip4 = spec.ip4.map(|(ip, _)| (ip, 0)),
                        5 => spec.ip4 = None,
                        _ => {}
                    }
                    crate::ident::try_record(spec).unwrap_or_else(|| peer_enr(u, 1))
                })
                .collect();
            match kind {
                0 => {
                    // off-distance records in the first packet
                    let mut v = valid.clone();
                    v.truncate(2);
                    if let Some(f) = foreign.first() {
                        v.push(f.clone());
                        invalid_in_first_packet = true;
                        any_invalid = true;
                    }
                    packets.push((1, v));
                }
                1 => {
                    // the requester's own record
                    let own = sw.d.local_enr();
                    let d = dist(&rid, &sw.local_id);
                    let bad = !p.distances.contains(&d);
                    invalid_in_first_packet = bad;
                    any_invalid = bad;
                    packets.push((1, vec![own]));
                }
                2 => {
                    // duplicates
                    let mut v = valid.clone();
                    v.truncate(2);
                    let dup = v.clone();
                    v.extend(dup);
                    packets.push((1, v));
                }
                3 => {
                    // absurd total, many packets
                    let total = *ctx.tape.pick(&[0u64, 2, 16, 1000, u64::MAX]);
                    let n = 1 + ctx.tape.choose(24) as usize;
                    // records in every packet, or only from some packet on (the first ones empty)
                    let first_with_records = *ctx.tape.pick(&[0usize, 0, 3, 15, 17]);
                    for i in 0..n {
                        let e = if i >= first_with_records { valid.get(i % valid.len().max(1)).cloned() } else { None };
                        packets.push((total, e.into_iter().collect()));
                    }
                }
                4 => {
                    // more packets than announced; the surplus carries foreign records
                    packets.push((2, valid.iter().take(1).cloned().collect()));
                    packets.push((2, valid.iter().skip(1).take(1).cloned().collect()));
                    if let Some(f) = foreign.first() {
                        extra_after_completion = Some(f.clone());
                    }
                }
                6 | 7 => {
                    // a multi-packet answer: 1-4 packets of an announced total of 2-5, a foreign record
                    // in one of them, the rest withheld (the handler then reports a failure) or not
                    let total = 2 + ctx.tape.choose(4) as u64;
                    let n = 1 + ctx.tape.choose(total as u32) as usize;
                    let bad_at = ctx.tape.choose(n as u32) as usize;
                    for i in 0..n {
                        let mut v: Vec<Enr> = valid.iter().skip(i).take(1).cloned().collect();
                        if i == bad_at {
                            if let Some(f) = foreign.get(i % foreign.len().max(1)) {
                                v.push(f.clone());
                                any_invalid = true;
                                if i == 0 {
                                    invalid_in_first_packet = true;
                                }
                            }
                        }
                        packets.push((total, v));
                    }
                    must_ban_after_delivery = any_invalid;
                }
                _ => {
                    // a single foreign record for whatever was asked (incl. a record request)
                    if let Some(f) = foreign.first() {
                        packets.push((1, vec![f.clone()]));
                        invalid_in_first_packet = true;
                        any_invalid = true;
                    } else {
                        packets.push((1, vec![]));
                    }
                }
            }
            ctx.ev(format!("malicious kind {kind}"));
        }
        // ---- deliver the packets one by one
        let na = node_address(p.peer);
        let mut returned: Vec<Enr> = vec![];
        let mut discovered: Vec<NodeId> = vec![];
        let mut delivered = 0usize;
        let first_total = packets.first().map(|x| x.0).unwrap_or(1);
        for (i, (total, nodes)) in packets.iter().enumerate() {
            // the real handler stops delivering once `total` (of the first packet) responses arrived
            if first_total >= 1 && (i as u64) >= first_total.max(1) {
                break;
            }
            returned.extend(nodes.iter().cloned());
            delivered += 1;
            let resp = Response { id: p.id.clone(), body: ResponseBody::Nodes { total: *total, nodes: nodes.clone() } };
            sw.emit(HandlerOut::Response(na.clone(), Box::new(resp))).await;
            sw.settle().await;
            let evs: Vec<NodeId> = sw.take_events().into_iter().filter_map(|e| if let Event::Discovered(enr) = e { Some(enr.node_id()) } else { None }).collect();
            if i >= 15 && !evs.is_empty() && which.c11 {
                ctx.fail("c11.more-than-15-packets-collected", format!("records of response packet #{} were accepted", i + 1), &[]);
            }
            discovered.extend(evs);
        }
        ctx.ev(format!(
            "t={} n#{} ({}) answered {:?} with {delivered} packets (total field {first_total}), {} records -> {} discovered",
            now_ms(),
            p.peer,
            if malicious { "malicious" } else { "honest" },
            p.distances,
            returned.len(),
            discovered.len()
        ));
        // if the announced total was never reached the handler eventually reports a failure
        let complete = (delivered as u64) >= first_total.max(1) || first_total == 0;
        if !complete {
            sw.emit(HandlerOut::RequestFailed(p.id.clone(), RequestError::Timeout)).await;
            sw.settle().await;
            discovered.extend(sw.take_events().into_iter().filter_map(|e| if let Event::Discovered(enr) = e { Some(enr.node_id()) } else { None }));
        } else if !is_stale {
            answered_ok.insert(p.peer);
        }
        if delivered > 0 && !is_stale {
            // a partial answer is still an answer (the service processes partial results)
            answered_ok.insert(p.peer);
        }
        if !is_stale {
            for id in &discovered {
                if let Some(c) = ident_of(id) {
                    if c != p.peer {
                        learnt.insert(c);
                    }
                }
            }
        }
        if which.c11 {
            ctx.count("responses_checked");
            let is_valid = |id: &NodeId| -> bool {
                if *id == rid {
                    p.distances.contains(&0)
                } else {
                    p.distances.contains(&dist(&rid, id))
                }
            };
            // (i) nothing outside the requested distances is accepted
            for id in &discovered {
                if !returned.iter().any(|e| e.node_id() == *id) {
                    ctx.fail("c11.accepted-record-not-returned", format!("record {} was accepted but the responder never returned it", short(id)), &[]);
                    break;
                }
                if !is_valid(id) {
                    let tags: Vec<&str> = if p.distances.as_slice() == [0] { vec!["record-request", "foreign-record-accepted"] } else { vec!["foreign-record-accepted"] };
                    ctx.fail(
                        "c11.off-distance-record-accepted",
                        format!("record {} at log2 distance {} from responder #{} was accepted for a request of distances {:?}", short(id), dist(&rid, id), p.peer, p.distances),
                        &tags,
                    );
                    break;
                }
            }
            // (ii) an honest, complete answer is accepted completely (minus the local node's own record)
            if !malicious && complete && !ctx.failed() {
                for e in &returned {
                    let id = e.node_id();
                    if id != sw.local_id && !discovered.contains(&id) {
                        let tags: Vec<&str> = if id == rid { vec!["honest-own-record-rejected"] } else { vec!["honest-record-rejected"] };
                        ctx.fail(
                            "c11.honest-record-rejected",
                            format!("honest responder #{} returned record {} (log2 distance {}, own record: {}) for distances {:?} but it was not accepted", p.peer, short(&id), dist(&rid, &id), id == rid, p.distances),
                            &tags,
                        );
                        break;
                    }
                }
            }
            // (iii) bans
            let bans = verif::permit_ban_snapshot();
            let banned = bans.ban_nodes.contains_key(&rid);
            if !malicious && banned && !banned_expected.contains(&p.peer) && !ctx.failed() {
                let tags: Vec<&str> = if p.distances.contains(&0) && p.distances.len() > 1 { vec!["honest-banned", "distance-list-with-zero"] } else { vec!["honest-banned"] };
                ctx.fail("c11.honest-responder-banned", format!("responder #{} answered FINDNODE {:?} exactly as the protocol prescribes and was banned", p.peer, p.distances), &tags);
            }
            if malicious && must_ban_after_delivery && !banned && !ctx.failed() {
                ctx.fail("c11.malicious-responder-not-banned", format!("responder #{} returned a record outside distances {:?} in a multi-packet answer and was not banned", p.peer, p.distances), &["multi-packet"]);
            }
            if malicious && invalid_in_first_packet && !banned && !ctx.failed() {
                ctx.fail("c11.malicious-responder-not-banned", format!("responder #{} returned a record outside distances {:?} and was not banned", p.peer, p.distances), &[]);
            }
            if banned && malicious && any_invalid {
                banned_expected.insert(p.peer);
            }
            if banned && malicious && !any_invalid && !banned_expected.contains(&p.peer) && !ctx.failed() {
                // duplicates / odd totals are not "records at other distances": a ban here would be
                // outside the property's "banned iff" clause only if the peer also counts as honest;
                // it does not, so this is merely recorded
                ctx.count("malicious_but_in_distance_banned");
                banned_expected.insert(p.peer);
            }
            // (iv) a packet after completion is ignored
            if let (Some(extra), true) = (extra_after_completion, complete) {
                if !ctx.failed() {
                    let resp = Response { id: p.id.clone(), body: ResponseBody::Nodes { total: 1, nodes: vec![extra.clone()] } };
                    sw.emit(HandlerOut::Response(na.clone(), Box::new(resp))).await;
                    sw.settle().await;
                    let late: Vec<NodeId> = sw.take_events().into_iter().filter_map(|e| if let Event::Discovered(enr) = e { Some(enr.node_id()) } else { None }).collect();
                    if late.contains(&extra.node_id()) {
                        ctx.fail("c11.packet-after-completion-accepted", format!("a NODES packet that arrived after the request to #{} had completed was processed", p.peer), &[]);
                    }
                }
            }
        }
    }
    // ---- the (last) lookup's result
    if !ctx.failed() && which.c09_10 {
        check_lookup_result(ctx, &result, &sw.local_id, &target, predicate_lookup, &asked, &answered_ok, &learnt, t_start, t_result, query_timeout_s, pending.len());
    }
    ctx.sample = Some(serde_json::json!({"asked": asked.len(), "answered": answered_ok.len(), "result": result.as_ref().map(|r| r.as_ref().map(|v| v.len()).unwrap_or(0))}));
    if !asked.is_empty() {
        ctx.nontrivial = true;
    }
    sw.shutdown();
}

#[allow(clippy::too_many_arguments)]
fn check_lookup_result(
    ctx: &mut Ctx,
    result: &Option<Result<Vec<Enr>, String>>,
    local_id: &NodeId,
    target: &NodeId,
    predicate_lookup: bool,
    asked: &BTreeMap<usize, u32>,
    answered_ok: &BTreeSet<usize>,
    learnt: &BTreeSet<usize>,
    t_start: u64,
    t_result: u64,
    query_timeout_s: u64,
    unanswered: usize,
) {
        match &result {
            None => {
                ctx.fail("c09.no-termination", format!("the lookup did not hand a result to its caller within query_timeout + 30 s of simulated time ({} requests still unanswered)", unanswered), &[]);
            }
            Some(Err(e)) => {
                ctx.fail("c09.result-not-delivered", format!("the lookup's caller got an error instead of a result: {e}"), &[]);
            }
            Some(Ok(v)) => {
                ctx.count("lookup_results_checked");
                let ids: Vec<NodeId> = v.iter().map(|e| e.node_id()).collect();
                let mut uniq = ids.clone();
                uniq.sort_by_key(|i| i.raw());
                uniq.dedup();
                let k = if predicate_lookup { 4 } else { 16 };
                if uniq.len() != ids.len() || ids.len() > k {
                    ctx.fail("c10.too-many-results", format!("lookup returned {} records ({} distinct), k = {k}", ids.len(), uniq.len()), &[]);
                }
                for w2 in ids.windows(2) {
                    let a = super::table::xor(&w2[0].raw(), &target.raw());
                    let b = super::table::xor(&w2[1].raw(), &target.raw());
                    if a >= b && !ctx.failed() {
                        ctx.fail("c10.not-increasing-distance", format!("lookup result {} is not closer to the target than its successor {}", short(&w2[0]), short(&w2[1])), &[]);
                    }
                }
                for id in &ids {
                    let pi = ident_of(id);
                    if !pi.map(|p| answered_ok.contains(&p)).unwrap_or(false) && !ctx.failed() {
                        ctx.fail("c10.result-never-answered", format!("lookup result {} never answered the lookup's request", short(id)), &[]);
                    }
                }
                // completeness at the service: fewer than k results and not cut off by the query timeout => every
                // candidate the lookup learnt of (a record accepted from an answer to one of its requests) was asked
                let cut_off = t_result.saturating_sub(t_start) + 250 >= query_timeout_s * 1000;
                if !predicate_lookup && ids.len() < k && !cut_off && !ctx.failed() {
                    ctx.count("service_lookup_completeness_checked");
                    if let Some(c) = learnt.iter().find(|c| !asked.contains_key(c) && peer_id(**c) != *local_id) {
                        ctx.fail(
                            "c10.incomplete",
                            format!("the lookup returned {} < {k} nodes after {}ms (query timeout {query_timeout_s}s) without ever contacting #{c}, whose record it had accepted from an answer", ids.len(), t_result.saturating_sub(t_start)),
                            &["service-level"],
                        );
                    }
                }
                if predicate_lookup {
                    for e in v {
                        if e.seq() % 2 != 1 && !ctx.failed() {
                            ctx.fail("c10.predicate-result-unmatched", format!("predicate lookup returned {} whose record does not satisfy the predicate", short(&e.node_id())), &[]);
                        }
                    }
                }
            }
        }
}
