//! Honest-traffic scenario on W-H: concurrent requests between 2-4 real handlers under network
//! faults, slow applications, peer restarts, forced session loss, re-keying and clock jumps; then
//! all faults stop. Oracles: C04 (exactly one outcome, bounded liveness, transmission bound,
//! genuine timeouts), C19 (nonce uniqueness), C13 (exemption ledger).

use super::hworld::*;
use crate::core::Ctx;
use discv5::verif::{toolkit, HandlerIn, HandlerOut, Message, NodeAddress, PacketKind, Request, RequestBody, Response, ResponseBody, WhoAreYouRef};
use discv5::{enr::NodeId, Enr, RequestError};
use std::collections::{BTreeMap, BTreeSet};

pub struct Opts {
    pub c04: bool,
    pub c13: bool,
    pub c19: bool,
    /// malicious-peer actions (second WHOAREYOU, failing handshakes, unanswered challenges)
    pub malicious: bool,
}

pub enum X {
    AppWhoAreYou { node: usize, wref: WhoAreYouRef, enr: Option<Enr> },
    AppRespond { node: usize, to: NodeAddress, resp: Response },
    Submit { node: usize, peer: usize, with_enr: bool, body: RequestBody },
    Restart { node: usize },
    ForceSessionLoss { at: usize, claimed_peer: usize },
    ClockJump { ms: u64 },
    Partition { a: usize, b: usize, ms: u64 },
    StopFaults,
    CheckExemptions { due_ms: u64 },
    Malicious { kind: u32, victim: usize },
}

#[derive(Debug)]
struct Req {
    node: usize,
    peer: usize,
    submitted_ms: u64,
    is_findnode: bool,
    with_enr: bool,
    total: Option<u64>,
    responses: u64,
    terminal: Option<(u64, String)>,
    /// the handler put the request on the wire (request-transmission log, H8); a queued request is not
    transmitted: bool,
}

fn rand_bytes(ctx: &mut Ctx, n: usize) -> Vec<u8> {
    let mut s = (ctx.tape.choose(1 << 30) as u64) << 8 | 0x77;
    let mut v = vec![0u8; n];
    for c in v.chunks_mut(8) {
        let b = crate::prng::splitmix(&mut s).to_le_bytes();
        let l = c.len();
        c.copy_from_slice(&b[..l]);
    }
    v
}

pub fn run(ctx: &mut Ctx, opts: Opts) {
    block_on(ctx, |ctx| Box::pin(run_async(ctx, opts)));
}

async fn run_async(ctx: &mut Ctx, opts: Opts) {
    // ---------- configuration
    let np = 1 + ctx.tape.choose(3) as usize; // peers
    let fault_free = ctx.tape.choose(6) == 0;
    let load_ms = 2000 + ctx.tape.choose(6000) as u64;
    let mut cfgs = vec![];
    // session knobs are enabled in a third of the runs (then per node with probability 1/2)
    let session_knobs = ctx.tape.choose(3) == 0;
    // a fifth of the runs happen on an IPv6-only network
    let v6 = ctx.tape.choose(5) == 0;
    for i in 0..=np {
        let mut c = NodeCfg::new(8 + i + 8 * ctx.tape.choose(6) as usize);
        c.request_timeout_ms = *ctx.tape.pick(&[1000u64, 200, 500, 2000]);
        c.request_retries = 1 + ctx.tape.choose(3) as u8;
        c.packet_filter = opts.c13 && ctx.tape.choose(2) == 1;
        c.v6 = v6;
        // tuning knobs: a session cache so small, or a session lifetime so short, that sessions are
        // evicted or expire in the middle of the traffic
        if session_knobs && ctx.tape.choose(2) == 0 {
            c.session_capacity = 1 + ctx.tape.choose(2) as usize;
        }
        if session_knobs && ctx.tape.choose(2) == 0 {
            c.session_timeout_ms = *ctx.tape.pick(&[300u64, 1500, 5000]);
        }
        cfgs.push(c);
    }
    // identities must be distinct
    for i in 0..cfgs.len() {
        for j in 0..i {
            if cfgs[i].ident == cfgs[j].ident {
                cfgs[i].ident = 100 + i;
            }
        }
    }
    let max_to = cfgs.iter().map(|c| c.request_timeout_ms).max().unwrap();
    let max_retries = cfgs.iter().map(|c| c.request_retries as u64).max().unwrap();
    let max_app_delay: u64 = 3000;
    let bound_ms = 4 * (max_retries + 1) * max_to + 2000 + max_app_delay;
    let horizon = u64::MAX / 4;
    let mut w: HWorld<X> = HWorld::new(horizon);
    if v6 {
        ctx.count("ipv6_runs");
        w.attacker_addrs = vec!["[fd00:9::1]:30303".parse().unwrap(), "[fd00:9::2]:30304".parse().unwrap()];
    }
    if !fault_free {
        let p = &mut w.profile;
        if ctx.tape.choose(2) == 1 {
            p.drop_pct = *ctx.tape.pick(&[2u32, 10, 30]);
        }
        if ctx.tape.choose(2) == 1 {
            p.dup_pct = *ctx.tape.pick(&[3u32, 15, 40]);
        }
        if ctx.tape.choose(2) == 1 {
            p.delay_pct = *ctx.tape.pick(&[5u32, 20, 50]);
            p.max_delay_ms = *ctx.tape.pick(&[30u32, 400, 2500]);
        }
        p.jitter_ms = *ctx.tape.pick(&[0u32, 3, 40]);
        if ctx.tape.choose(3) == 0 {
            p.corrupt_pct = *ctx.tape.pick(&[2u32, 10]);
        }
        if ctx.tape.choose(3) == 0 {
            p.replay_pct = *ctx.tape.pick(&[3u32, 15]);
        }
    }
    let slow_app = !fault_free && ctx.tape.choose(3) == 0;
    let silent_pct = if fault_free { 0 } else { *ctx.tape.pick(&[0u32, 0, 10, 40]) };
    let whoareyou_none_pct = *ctx.tape.pick(&[0u32, 30, 100]);
    for c in &cfgs {
        w.add_node(c.clone()).await;
    }
    ctx.ev(format!(
        "cfg nodes={} fault_free={fault_free} load_ms={load_ms} bound_ms={bound_ms} profile={:?} slow_app={slow_app} silent%={silent_pct} wru_none%={whoareyou_none_pct} timeouts={:?} retries={:?} filter={:?} session_cap={:?} session_ttl={:?}",
        np + 1,
        w.profile,
        cfgs.iter().map(|c| c.request_timeout_ms).collect::<Vec<_>>(),
        cfgs.iter().map(|c| c.request_retries).collect::<Vec<_>>(),
        cfgs.iter().map(|c| c.packet_filter).collect::<Vec<_>>(),
        cfgs.iter().map(|c| c.session_capacity).collect::<Vec<_>>(),
        cfgs.iter().map(|c| c.session_timeout_ms).collect::<Vec<_>>()
    ));
    if cfgs.iter().any(|c| c.session_capacity < 1000) {
        ctx.fault("tiny_session_cache");
    }
    if cfgs.iter().any(|c| c.session_timeout_ms < 86_400_000) {
        ctx.fault("short_session_lifetime");
    }
    // ---------- workload: requests at chosen times (mostly from node 0)
    let nreq = 1 + ctx.tape.choose(12) as u64;
    for _ in 0..nreq {
        let node = if ctx.tape.choose(4) == 0 { 1 + ctx.tape.choose(np as u32) as usize } else { 0 };
        let mut peer = ctx.tape.choose((np + 1) as u32) as usize;
        if peer == node {
            peer = (peer + 1) % (np + 1);
        }
        let body = match ctx.tape.choose(4) {
            0 => RequestBody::Ping { enr_seq: 1 },
            1 => {
                let n = 1 + ctx.tape.choose(20) as usize;
                RequestBody::Talk { protocol: b"sim".to_vec(), request: rand_bytes(ctx, n) }
            }
            _ => RequestBody::FindNode { distances: vec![254 + ctx.tape.choose(3) as u64] },
        };
        let at = match ctx.tape.choose(3) {
            0 => 0,
            _ => ctx.tape.choose(load_ms as u32) as u64,
        };
        let with_enr = ctx.tape.choose(4) != 0;
        w.schedule(at, Ev::Custom(X::Submit { node, peer, with_enr, body }));
    }
    // ---------- fault schedule
    if !fault_free {
        for _ in 0..ctx.tape.choose(4) {
            let at = ctx.tape.choose(load_ms as u32) as u64;
            match ctx.tape.choose(5) {
                0 => w.schedule(at, Ev::Custom(X::Restart { node: 1 + ctx.tape.choose(np as u32) as usize })),
                1 | 2 => {
                    let at_node = ctx.tape.choose((np + 1) as u32) as usize;
                    let mut p = ctx.tape.choose((np + 1) as u32) as usize;
                    if p == at_node {
                        p = (p + 1) % (np + 1);
                    }
                    w.schedule(at, Ev::Custom(X::ForceSessionLoss { at: at_node, claimed_peer: p }))
                }
                3 => w.schedule(at, Ev::Custom(X::ClockJump { ms: *ctx.tape.pick(&[50u64, 900, 1000, 5000]) })),
                _ => {
                    let a = ctx.tape.choose((np + 1) as u32) as usize;
                    let b = (a + 1 + ctx.tape.choose(np as u32) as usize) % (np + 1);
                    w.schedule(at, Ev::Custom(X::Partition { a, b, ms: 200 + ctx.tape.choose(3000) as u64 }))
                }
            }
        }
        if opts.malicious {
            for _ in 0..ctx.tape.choose(4) {
                let at = ctx.tape.choose(load_ms as u32) as u64;
                w.schedule(at, Ev::Custom(X::Malicious { kind: ctx.tape.choose(6), victim: ctx.tape.choose((np + 1) as u32) as usize }));
            }
        }
    }
    w.schedule(load_ms, Ev::Custom(X::StopFaults));

    // ---------- bookkeeping
    let mut reqs: BTreeMap<u64, Req> = BTreeMap::new();
    let mut next_rid: u64 = 1;
    // emissions per (node, destination addr): times
    let mut emitted_to: BTreeMap<(usize, std::net::SocketAddr), Vec<u64>> = BTreeMap::new();
    let mut stop_ms = u64::MAX;
    // outstanding WHOAREYOUs per (node, addr): emission times
    // outstanding WHOAREYOUs per (node, address): (time sent or re-armed, the node id it was addressed to)
    let mut challenges: BTreeMap<(usize, std::net::SocketAddr), Vec<(u64, [u8; 32])>> = BTreeMap::new();
    let mut malicious_touched: BTreeSet<usize> = BTreeSet::new();
    let mut check_pending = false;
    let mut last_jump_ms: u64 = 0;
    let mut last_ex: BTreeMap<usize, BTreeMap<std::net::SocketAddr, usize>> = BTreeMap::new();
    let mut timeout_reports: Vec<(u64, usize, usize, u64)> = vec![];
    // handler-internal requests seen on the wire: (node, peer, id) -> first transmission; and responses delivered
    let mut internal_tx: BTreeMap<(usize, usize, u64), u64> = BTreeMap::new();
    let mut resp_delivered: BTreeMap<(usize, usize, u64), u64> = BTreeMap::new();
    let mut req_by_nonce: BTreeMap<[u8; 12], discv5::verif::RequestTx> = BTreeMap::new();
    // nonce of each delivered response: a who-are-you query for that nonce means the receiver could not
    // decrypt it (its session with the sender was gone), i.e. the response did not count
    let mut resp_nonce: BTreeMap<(usize, [u8; 12]), (usize, usize, u64)> = BTreeMap::new();

    loop {
        if ctx.failed() {
            break;
        }
        let obs = w.next().await;
        w.absorb_keys();
        for rt in discv5::verif::take_request_log() {
            if !rt.internal {
                let id = rid_num(&discv5::verif::RequestId(rt.request_id.clone()));
                if let Some(r) = reqs.get_mut(&id) {
                    if w.nodes[r.node].id == rt.local {
                        r.transmitted = true;
                    }
                }
            }
            req_by_nonce.insert(rt.message_nonce, rt);
        }
        if opts.c13 {
            for i in 0..w.nodes.len() {
                let ex = w.exemptions(i);
                if last_ex.get(&i) != Some(&ex) {
                    ctx.ev(format!("t={} n{i} exemptions now {:?}", now_ms(), ex.iter().map(|(a, c)| format!("{}:{c}", w.node_by_addr(a).map(|x| format!("n{x}")).unwrap_or_else(|| a.to_string()))).collect::<Vec<_>>()));
                    last_ex.insert(i, ex);
                }
            }
        }
        match obs {
            Obs::Horizon => break,
            Obs::Datagram { from, out } => {
                let wi = w.tap(ctx, from, &out);
                emitted_to.entry((from, out.0)).or_default().push(now_ms());
                if let Some(d) = &w.wire[wi].dec {
                    if matches!(d.kind, PacketKind::WhoAreYou { .. }) {
                        challenges.entry((from, out.0)).or_default().push((now_ms(), out.1.raw()));
                    }
                }
                if opts.c04 || opts.c13 {
                    if let (Some(d), Some(to)) = (w.wire[wi].dec.clone(), w.node_by_addr(&out.0)) {
                        if !matches!(d.kind, PacketKind::WhoAreYou { .. }) {
                            if let Some((_, pt)) = w.decrypt_with_log(&d, &w.nodes[from].id) {
                                if let Some(Message::Request(rq)) = decode_message(&pt) {
                                    let id = rid_num(&rq.id);
                                    if reqs.get(&id).map(|r| r.node != from).unwrap_or(true) {
                                        internal_tx.entry((from, to, id)).or_insert(now_ms());
                                    }
                                }
                            } else if matches!(d.kind, PacketKind::Message { .. }) {
                                // a random packet: the request it stands for is known from the handler's
                                // request-transmission log (H8)
                                if let Some(rt) = req_by_nonce.get(&d.message_nonce) {
                                    if rt.internal && rt.local == w.nodes[from].id {
                                        ctx.count("sessionless_internal_requests");
                                        let id = rid_num(&discv5::verif::RequestId(rt.request_id.clone()));
                                        internal_tx.entry((from, to, id)).or_insert(now_ms());
                                    }
                                }
                            }
                        }
                    }
                }
                w.route(ctx, wi);
            }
            Obs::Sched(Ev::Deliver { to, src, bytes, origin }) => {
                if w.nodes[to].alive {
                    if opts.c04 || opts.c13 {
                        if let Origin::Genuine { wire, from } = &origin {
                            if let Some(d) = w.wire[*wire].dec.clone() {
                                if !matches!(d.kind, PacketKind::WhoAreYou { .. }) {
                                    if let Some((_, pt)) = w.decrypt_with_log(&d, &w.nodes[*from].id) {
                                        if let Some(Message::Response(rs)) = decode_message(&pt) {
                                            // a node that is challenging the sender at this moment has (as a rule) no usable
                                            // session with it and cannot read the response: such a delivery does not count as
                                            // an answer (erring on this side only loosens the bounds derived from it)
                                            let tmo = w.nodes[to].cfg.request_timeout_ms;
                                            let challenging = challenges.get(&(to, src)).map(|v| v.iter().any(|(t, _)| *t + tmo + 2 >= now_ms())).unwrap_or(false);
                                            if challenging {
                                                ctx.count("responses_delivered_while_receiver_challenges_sender");
                                            } else {
                                                resp_delivered.entry((to, *from, rid_num(&rs.id))).or_insert(now_ms());
                                                resp_nonce.insert((to, d.message_nonce), (to, *from, rid_num(&rs.id)));
                                            }
                                        }
                                    }
                                }
                            }
                        }
                    }
                    // a handshake that arrives while a challenge to that address is outstanding may be
                    // rejected for its signature, which re-inserts the challenge and re-arms its expiry
                    if let Ok(d) = toolkit::decode_packet(&w.nodes[to].id, &bytes) {
                        if let PacketKind::Handshake { src_id, .. } = &d.kind {
                            // (the challenge concerned is the one addressed to the id the handshake claims: a
                            // corrupted packet may have made the node challenge another id at the same address)
                            let tmo = w.nodes[to].cfg.request_timeout_ms;
                            if let Some(v) = challenges.get_mut(&(to, src)) {
                                if let Some(last) = v.iter_mut().rev().find(|(t, id)| *t + tmo + 1 >= now_ms() && *id == src_id.raw()) {
                                    last.0 = now_ms();
                                }
                            }
                        }
                    }
                    w.deliver(to, src, bytes, origin);
                }
            }
            Obs::Sched(Ev::Custom(x)) => match x {
                X::Submit { node, peer, with_enr, body } => {
                    if !w.nodes[node].alive {
                        continue;
                    }
                    let id = next_rid;
                    next_rid += 1;
                    let is_findnode = matches!(body, RequestBody::FindNode { .. });
                    ctx.ev(format!("t={} n{node} submit r{id} -> n{peer} {} enr={with_enr}", now_ms(), body_name(&body)));
                    reqs.insert(id, Req { node, peer, submitted_ms: now_ms(), is_findnode, with_enr, total: None, responses: 0, terminal: None, transmitted: false });
                    let contact = w.contact(peer, with_enr);
                    w.send_in(node, HandlerIn::Request(contact, Box::new(Request { id: rid(id), body })));
                }
                X::AppWhoAreYou { node, wref, enr } => {
                    ctx.ev(format!("t={} n{node} app answers WhoAreYou for {} enr={}", now_ms(), short_id(&wref.0.node_id), enr.is_some()));
                    w.send_in(node, HandlerIn::WhoAreYou(wref, enr));
                }
                X::AppRespond { node, to, resp } => {
                    w.send_in(node, HandlerIn::Response(to, Box::new(resp)));
                }
                X::Restart { node } => {
                    if now_ms() < stop_ms {
                        ctx.fault("peer_restart");
                        ctx.ev(format!("t={} RESTART n{node}", now_ms()));
                        // requests submitted at the restarted node die with it
                        for r in reqs.values_mut().filter(|r| r.node == node && r.terminal.is_none()) {
                            r.terminal = Some((now_ms(), "lost-in-restart".into()));
                        }
                        challenges.retain(|(n, _), _| *n != node);
                        w.restart(node).await;
                    }
                }
                X::ForceSessionLoss { at, claimed_peer } => {
                    if now_ms() < stop_ms && w.nodes[at].alive {
                        ctx.fault("undecryptable_packet_session_loss");
                        let ct = rand_bytes(ctx, 44);
                        let mut nonce = [0u8; 12];
                        nonce.copy_from_slice(&rand_bytes(ctx, 12));
                        let bytes = toolkit::encode_packet(7, nonce, PacketKind::Message { src_id: w.nodes[claimed_peer].id }, ct, &w.nodes[at].id);
                        ctx.ev(format!("t={} inject undecryptable MSG at n{at} as n{claimed_peer}", now_ms()));
                        let src = w.nodes[claimed_peer].addr;
                        w.deliver(at, src, bytes, Origin::Injected { tag: "undecryptable" });
                    }
                }
                X::ClockJump { ms } => {
                    if now_ms() < stop_ms {
                        ctx.fault("clock_jump");
                        ctx.ev(format!("t={} CLOCK JUMP +{ms}ms", now_ms()));
                        tokio::time::advance(std::time::Duration::from_millis(ms)).await;
                        last_jump_ms = now_ms();
                    }
                }
                X::Partition { a, b, ms } => {
                    if now_ms() < stop_ms {
                        ctx.fault("partition");
                        ctx.ev(format!("t={} PARTITION n{a}|n{b} for {ms}ms", now_ms()));
                        let until = (now_ms() + ms).min(stop_ms.min(load_ms));
                        w.partitions.push((a, b, until));
                    }
                }
                X::CheckExemptions { due_ms } => {
                    if now_ms() > due_ms {
                        // a clock jump moved time past this check: the handlers have not yet processed
                        // the timers that expired meanwhile; look again 1 ms later
                        w.schedule(1, Ev::Custom(X::CheckExemptions { due_ms: now_ms() + 1 }));
                        continue;
                    }
                    check_pending = false;
                    for node in 0..w.nodes.len() {
                        check_exemption_upper(ctx, &w, &reqs, &challenges, node, &internal_tx, &resp_delivered, last_jump_ms);
                    }
                }
                X::StopFaults => {
                    stop_ms = now_ms();
                    // the liveness window starts when the faults really stop (clock jumps may have moved time)
                    w.horizon_ms = stop_ms + bound_ms + 500;
                    w.faults_on = false;
                    w.partitions.clear();
                    ctx.ev(format!("t={} FAULTS STOP", now_ms()));
                }
                X::Malicious { kind, victim } => {
                    if now_ms() < stop_ms && w.nodes[victim].alive {
                        malicious(ctx, &mut w, kind, victim, &mut malicious_touched);
                    }
                }
            },
            Obs::Out { node, ev } => {
                let t = now_ms();
                match ev {
                    HandlerOut::WhoAreYou(wref) => {
                        if let Some(k) = resp_nonce.remove(&(node, wref.verif_message_nonce())) {
                            ctx.count("responses_not_decryptable_at_receiver");
                            resp_delivered.remove(&k);
                        }
                        let known = w.known_record(&wref.0.node_id);
                        let enr = if ctx.tape.choose(100) < whoareyou_none_pct { None } else { known };
                        let delay = if slow_app && t < stop_ms && ctx.tape.choose(3) == 0 {
                            ctx.fault("slow_whoareyou_answer");
                            1 + ctx.tape.choose(max_app_delay as u32) as u64
                        } else {
                            0
                        };
                        ctx.ev(format!("t={t} n{node} out WhoAreYou({}) answer in {delay}ms", short_id(&wref.0.node_id)));
                        w.schedule(delay, Ev::Custom(X::AppWhoAreYou { node, wref, enr }));
                    }
                    HandlerOut::Request(from, req) => {
                        let silent = t < stop_ms && silent_pct > 0 && ctx.tape.choose(100) < silent_pct;
                        if silent {
                            ctx.fault("silent_application");
                            ctx.ev(format!("t={t} n{node} out Request({}) from {} IGNORED", body_name(&req.body), short_id(&from.node_id)));
                        } else {
                            // the number of NODES packets is a function of the request id, so that a replayed request is answered the same way
                            // (a request for distance 0 alone is a record request: one record, one packet, as the real service answers it)
                            let total = match &req.body {
                                RequestBody::FindNode { distances } if distances.as_slice() != [0] => 1 + (rid_num(&req.id) % 3),
                                _ => 1,
                            };
                            let delay = if slow_app && t < stop_ms && ctx.tape.choose(4) == 0 { 1 + ctx.tape.choose(1500) as u64 } else { 0 };
                            ctx.ev(format!("t={t} n{node} out Request({}) from {} -> respond x{total} in {delay}ms", body_name(&req.body), short_id(&from.node_id)));
                            for resp in w.default_response(node, &from, &req, total) {
                                w.schedule(delay, Ev::Custom(X::AppRespond { node, to: from.clone(), resp }));
                            }
                        }
                    }
                    HandlerOut::Response(from, resp) => {
                        let id = rid_num(&resp.id);
                        ctx.ev(format!("t={t} n{node} out Response r{id} from {}", short_id(&from.node_id)));
                        if let Some(r) = reqs.get_mut(&id) {
                            if r.node != node {
                                continue;
                            }
                            if opts.c04 {
                                if let Some((tt, what)) = &r.terminal {
                                    ctx.fail("c04.event-after-terminal", format!("request r{id}: response delivered at {t}ms after its terminal outcome ({what} at {tt}ms)"), &[]);
                                    break;
                                }
                                let expect = NodeAddress { node_id: w.nodes[r.peer].id, socket_addr: w.nodes[r.peer].addr };
                                if from != expect {
                                    ctx.fail("c04.response-misattributed", format!("request r{id} to n{} answered from {from}", r.peer), &[]);
                                    break;
                                }
                            }
                            r.responses += 1;
                            let done = match (&resp.body, r.is_findnode) {
                                (ResponseBody::Nodes { total, .. }, true) => {
                                    let tot = *r.total.get_or_insert(*total);
                                    tot <= 1 || r.responses >= tot
                                }
                                _ => true,
                            };
                            if done && r.terminal.is_none() {
                                r.terminal = Some((t, "response".into()));
                            }
                        }
                    }
                    HandlerOut::RequestFailed(idv, err) => {
                        let id = rid_num(&idv);
                        ctx.ev(format!("t={t} n{node} out RequestFailed r{id} {err:?}"));
                        if let Some(r) = reqs.get_mut(&id) {
                            if r.node != node {
                                continue;
                            }
                            if opts.c04 {
                                if let Some((tt, what)) = &r.terminal {
                                    ctx.fail("c04.second-terminal", format!("request r{id}: failure {err:?} reported at {t}ms after its terminal outcome ({what} at {tt}ms)"), &[]);
                                    break;
                                }
                                if matches!(err, RequestError::Timeout) {
                                    timeout_reports.push((id, node, r.peer, t));
                                }
                            }
                            r.terminal = Some((t, format!("failed:{err:?}")));
                        }
                    }
                    HandlerOut::Established(enr, addr, dir) => ctx.ev(format!("t={t} n{node} out Established({}, {addr}, {dir:?})", short_id(&enr.node_id()))),
                    HandlerOut::UnverifiableEnr { node_id, .. } => ctx.ev(format!("t={t} n{node} out UnverifiableEnr({})", short_id(&node_id))),
                    HandlerOut::ExpiredSessions(v) => ctx.ev(format!("t={t} n{node} out ExpiredSessions({})", v.len())),
                    HandlerOut::UnrecognizedFrame(_) => ctx.ev(format!("t={t} n{node} out UnrecognizedFrame")),
                }
                // C04 (d): a Timeout for a request to P is justified only if some request of this node
                // to P really went unanswered for a full timeout period: it was submitted, and something
                // was transmitted to P, at least request_timeout before the report, and it had no
                // terminal outcome before the report.
                for (id, n, peer, t) in timeout_reports.drain(..) {
                    ctx.count("timeouts_reported");
                    let to = w.nodes[n].cfg.request_timeout_ms;
                    let dst = w.nodes[peer].addr;
                    let sent_long_ago = emitted_to.get(&(n, dst)).map(|v| v.iter().any(|e| *e + to <= t + 1)).unwrap_or(false);
                    let unanswered = reqs.values().any(|r| r.node == n && r.peer == peer && r.submitted_ms + to <= t + 1 && r.terminal.as_ref().map(|(tt, k)| *tt >= t && k != "response").unwrap_or(true));
                    let internal_unanswered = internal_tx.iter().any(|((nn, pp, iid), t0)| *nn == n && *pp == peer && *t0 + to <= t + 1 && resp_delivered.get(&(n, peer, *iid)).map(|td| *td >= t).unwrap_or(true));
                    if internal_unanswered {
                        ctx.count("timeouts_caused_by_internal_enr_request");
                    }
                    if !(sent_long_ago && (unanswered || internal_unanswered)) {
                        ctx.fail(
                            "c04.spurious-timeout",
                            format!("request r{id} failed with Timeout at {t}ms but no request of n{n} to n{peer} had been outstanding (submitted and transmitted) for a full timeout ({to}ms)"),
                            &[],
                        );
                    }
                }
                // C13 continuous upper bound: evaluated 1 ms later, when every handler has finished the
                // work that was due at this instant (time only advances when all tasks are idle)
                if opts.c13 && !ctx.failed() && !check_pending {
                    check_pending = true;
                    w.schedule(1, Ev::Custom(X::CheckExemptions { due_ms: now_ms() + 1 }));
                }
            }
        }
    }
    if ctx.failed() {
        w.shutdown();
        return;
    }
    // ---------- end of run (quiescent: horizon = stop + bound + slack)
    let t_end = now_ms();
    if opts.c04 {
        for (id, r) in &reqs {
            if r.terminal.is_none() && w.nodes[r.node].alive {
                let tags: Vec<&str> = vec!["no-terminal"];
                ctx.fail(
                    "c04.no-terminal-outcome",
                    format!("request r{id} (n{} -> n{}, submitted at {}ms) has neither response nor failure at {t_end}ms, {}ms after the last fault", r.node, r.peer, r.submitted_ms, t_end.saturating_sub(stop_ms)),
                    &tags,
                );
                break;
            }
        }
    }
    if !ctx.failed() && (opts.c04 || opts.c19) {
        wire_oracles(ctx, &w, &opts, &reqs);
    }
    if !ctx.failed() && opts.c13 {
        for i in 0..w.nodes.len() {
            if !w.nodes[i].alive {
                continue;
            }
            let mut ex = w.exemptions(i);
            // The premise of the clause ("every request has completed or failed and every challenge was
            // answered or expired") is established per address from the wire: an outstanding request was
            // transmitted or retransmitted, and an unexpired challenge was sent, within the last timeout
            // period. An address the node still talked to within that period is not quiescent (an
            // implementation may legitimately still be exchanging handshakes there) and is skipped.
            let to = w.nodes[i].cfg.request_timeout_ms;
            let recent: std::collections::BTreeSet<std::net::SocketAddr> = w.wire.iter().rev().take_while(|r| r.t_ms + to + 2 >= t_end).filter(|r| r.from == i).map(|r| r.dst).collect();
            let before = ex.len();
            ex.retain(|a, _| !recent.contains(a));
            if ex.len() != before {
                ctx.count("horizon_address_not_quiescent");
            }
            ctx.count("quiescent_exemption_checks");
            if !ex.is_empty() && w.pending_events() == 0 {
                ctx.fail("c13.exemption-leak", format!("n{i}: exemptions {ex:?} remain at quiescence (all requests terminal, all challenges expired, nothing sent to these addresses for a full timeout period)"), &[]);
                break;
            }
        }
    }
    let served = reqs.values().filter(|r| matches!(&r.terminal, Some((_, k)) if k == "response")).count();
    ctx.sample = Some(serde_json::json!({"requests": reqs.len(), "answered": served, "datagrams": w.wire.len()}));
    if served > 0 {
        ctx.count("runs_with_answered_request");
    }
    w.shutdown();
}

fn body_name(b: &RequestBody) -> &'static str {
    match b {
        RequestBody::Ping { .. } => "PING",
        RequestBody::FindNode { .. } => "FINDNODE",
        RequestBody::Talk { .. } => "TALK",
    }
}
pub fn short_id(id: &NodeId) -> String {
    hex::encode(&id.raw()[..3])
}

/// C13 upper bound: exemptions(addr) <= non-terminal external requests to addr + handler-internal
/// requests seen on the wire and not yet answered + WHOAREYOUs emitted to addr within the last
/// request_timeout (an answered challenge only lowers the real count).
#[allow(clippy::too_many_arguments)]
fn check_exemption_upper(
    ctx: &mut Ctx,
    w: &HWorld<X>,
    reqs: &BTreeMap<u64, Req>,
    challenges: &BTreeMap<(usize, std::net::SocketAddr), Vec<(u64, [u8; 32])>>,
    node: usize,
    internal_tx: &BTreeMap<(usize, usize, u64), u64>,
    resp_delivered: &BTreeMap<(usize, usize, u64), u64>,
    last_jump_ms: u64,
) {
    if !w.nodes[node].alive {
        return;
    }
    let now = now_ms();
    let to = w.nodes[node].cfg.request_timeout_ms;
    let life = 4 * (w.nodes[node].cfg.request_retries as u64 + 1) * to;
    // lower bound: every request that was transmitted and has no outcome yet is certainly outstanding
    let ex = w.exemptions(node);
    for p in 0..w.nodes.len() {
        let addr = w.nodes[p].addr;
        let certainly = reqs.values().filter(|r| r.node == node && r.peer == p && r.transmitted && r.terminal.is_none()).count();
        let cnt = ex.get(&addr).copied().unwrap_or(0);
        if cnt < certainly {
            ctx.fail(
                "c13.exemption-below-outstanding",
                format!("n{node}: {cnt} exemptions for {addr} although {certainly} transmitted requests to it are still without an outcome"),
                &[],
            );
            return;
        }
    }
    for (addr, cnt) in ex {
        let open_reqs = reqs.values().filter(|r| r.node == node && w.nodes[r.peer].addr == addr && r.terminal.as_ref().map(|(t, _)| *t + 2 >= now).unwrap_or(true)).count();
        let internal = internal_tx
            .iter()
            .filter(|((n, p, id), t0)| *n == node && w.nodes[*p].addr == addr && (**t0).max(last_jump_ms) + life >= now && resp_delivered.get(&(node, *p, *id)).map(|td| *td + 2 >= now).unwrap_or(true))
            .count();
        let open_ch = challenges.get(&(node, addr)).map(|v| v.iter().filter(|(t, _)| (*t).max(last_jump_ms) + to + 2 >= now).count()).unwrap_or(0);
        if cnt > open_reqs + internal + open_ch {
            ctx.fail(
                "c13.exemption-exceeds-outstanding",
                format!("n{node}: {cnt} exemptions for {addr} but only {open_reqs} open requests, {internal} unanswered handler-internal requests and {open_ch} unexpired challenges"),
                &[],
            );
            return;
        }
    }
}

/// Oracles over the recorded wire history: C04 (c) transmission bound, C19 nonce uniqueness.
fn wire_oracles(ctx: &mut Ctx, w: &HWorld<X>, opts: &Opts, reqs: &BTreeMap<u64, Req>) {
    // per emitting node: (key index, nonce) -> bytes ; id-nonces
    let mut nonce_seen: BTreeMap<(usize, usize, [u8; 12]), usize> = BTreeMap::new();
    let mut idnonce_seen: BTreeMap<(usize, [u8; 16]), usize> = BTreeMap::new();
    let mut tx_count: BTreeMap<(u64, usize), u32> = BTreeMap::new();
    for (wi, rec) in w.wire.iter().enumerate() {
        let Some(d) = &rec.dec else { continue };
        let from_id = w.nodes[rec.from].id;
        match &d.kind {
            PacketKind::WhoAreYou { id_nonce, .. } => {
                if opts.c19 {
                    ctx.count("whoareyou_checked");
                    if let Some(prev) = idnonce_seen.insert((rec.from, *id_nonce), wi) {
                        ctx.fail("c19.id-nonce-repeated", format!("n{} used id-nonce {} in datagrams #{prev} and #{wi}", rec.from, hex::encode(id_nonce)), &[]);
                        return;
                    }
                }
            }
            PacketKind::Message { .. } | PacketKind::Handshake { .. } => {
                if let Some((ki, pt)) = w.decrypt_with_log(d, &from_id) {
                    if opts.c19 {
                        ctx.count("encrypted_datagrams_attributed_to_key");
                        if let Some(prev) = nonce_seen.insert((rec.from, ki, d.message_nonce), wi) {
                            if w.wire[prev].bytes != rec.bytes {
                                ctx.fail(
                                    "c19.nonce-reused",
                                    format!("n{} encrypted two different datagrams (#{prev}, #{wi}) under one session key with nonce {}", rec.from, hex::encode(d.message_nonce)),
                                    &[],
                                );
                                return;
                            }
                            ctx.count("identical_retransmissions");
                        }
                    }
                    if opts.c04 {
                        if let Some(Message::Request(rq)) = decode_message(&pt) {
                            let id = rid_num(&rq.id);
                            if let Some(r) = reqs.get(&id) {
                                if r.node == rec.from {
                                    let c = tx_count.entry((id, ki)).or_insert(0);
                                    *c += 1;
                                    let lim = 1 + w.nodes[rec.from].cfg.request_retries as u32;
                                    if *c > lim {
                                        ctx.fail("c04.too-many-transmissions", format!("request r{id} was put on the wire {c} times under one session key (limit 1+retries = {lim})"), &[]);
                                        return;
                                    }
                                }
                            }
                        }
                    }
                }
            }
        }
    }
}

/// Malicious-peer actions against `victim` using recorded traffic (no honest secret keys).
fn malicious(ctx: &mut Ctx, w: &mut HWorld<X>, kind: u32, victim: usize, touched: &mut BTreeSet<usize>) {
    let vid = w.nodes[victim].id;
    // find the latest datagram emitted by the victim that is a Handshake or a random/Message packet
    let pick = |w: &HWorld<X>, want_hs: bool| -> Option<usize> {
        w.wire
            .iter()
            .enumerate()
            .rev()
            .find(|(_, r)| {
                r.from == victim
                    && match &r.dec {
                        Some(d) => match d.kind {
                            PacketKind::Handshake { .. } => want_hs,
                            PacketKind::Message { .. } => !want_hs,
                            _ => false,
                        },
                        None => false,
                    }
            })
            .map(|(i, _)| i)
    };
    match kind {
        0 => {
            // second WHOAREYOU echoing the nonce of the victim's last handshake
            if let Some(i) = pick(w, true) {
                let r = w.wire[i].clone();
                let d = r.dec.unwrap();
                let mut idn = [0u8; 16];
                idn.copy_from_slice(&rand_bytes(ctx, 16));
                let bytes = toolkit::encode_packet(9, d.message_nonce, PacketKind::WhoAreYou { id_nonce: idn, enr_seq: 0 }, vec![], &vid);
                ctx.fault("second_whoareyou");
                ctx.ev(format!("t={} MALICIOUS second WHOAREYOU at n{victim} from {}", now_ms(), r.dst));
                w.deliver(victim, r.dst, bytes, Origin::Injected { tag: "second-whoareyou" });
                touched.insert(victim);
            }
        }
        1 => {
            // WHOAREYOU for the victim's last Message/random packet from the right address (forces a handshake)
            if let Some(i) = pick(w, false) {
                let r = w.wire[i].clone();
                let d = r.dec.unwrap();
                let mut idn = [0u8; 16];
                idn.copy_from_slice(&rand_bytes(ctx, 16));
                let bytes = toolkit::encode_packet(9, d.message_nonce, PacketKind::WhoAreYou { id_nonce: idn, enr_seq: 0 }, vec![], &vid);
                ctx.fault("forged_whoareyou");
                ctx.ev(format!("t={} MALICIOUS WHOAREYOU at n{victim} from {}", now_ms(), r.dst));
                w.deliver(victim, r.dst, bytes, Origin::Injected { tag: "forged-whoareyou" });
                touched.insert(victim);
            }
        }
        4 | 5 => {
            // WHOAREYOU echoing the nonce of the victim's last request packet (or handshake), but from another
            // endpoint than the one the victim dialled: the peer's IP on another port, or a third party's address
            if let Some(i) = pick(w, kind == 5) {
                let r = w.wire[i].clone();
                let d = r.dec.unwrap();
                let mut idn = [0u8; 16];
                idn.copy_from_slice(&rand_bytes(ctx, 16));
                let bytes = toolkit::encode_packet(9, d.message_nonce, PacketKind::WhoAreYou { id_nonce: idn, enr_seq: 0 }, vec![], &vid);
                let src = if ctx.tape.choose(2) == 0 {
                    let mut a = r.dst;
                    a.set_port(r.dst.port().wrapping_add(5));
                    a
                } else {
                    w.attacker_addrs[0]
                };
                ctx.fault("whoareyou_from_other_endpoint");
                ctx.ev(format!("t={} MALICIOUS WHOAREYOU at n{victim} for a packet sent to {} from {src}", now_ms(), r.dst));
                w.deliver(victim, src, bytes, Origin::Injected { tag: "whoareyou-other-endpoint" });
                touched.insert(victim);
            }
        }
        2 | 3 => {
            // unknown party: random packet (elicits WHOAREYOU), then a handshake that fails after the
            // challenge was consumed (no record / garbage ephemeral key) or is never sent
            let a = w.attacker_addrs[(kind - 2) as usize];
            let aid = crate::ident::pool()[150 + (kind as usize)].id;
            let ct = rand_bytes(ctx, 44);
            let mut nonce = [0u8; 12];
            nonce.copy_from_slice(&rand_bytes(ctx, 12));
            let bytes = toolkit::encode_packet(11, nonce, PacketKind::Message { src_id: aid }, ct, &vid);
            ctx.fault("unknown_party_random_packet");
            ctx.ev(format!("t={} MALICIOUS random packet at n{victim} from {a}", now_ms()));
            w.deliver(victim, a, bytes, Origin::Injected { tag: "attacker-random" });
            touched.insert(victim);
        }
        _ => {}
    }
}

// ---------------------------------------------------------------------------------------------
// C13, bypass semantics: with the packet filter on and the peer's IP banned, the peer's datagrams
// pass only while this node is waiting for something from that address.

pub fn run_bypass(ctx: &mut Ctx) {
    block_on(ctx, |ctx| Box::pin(bypass_async(ctx)));
}

async fn bypass_async(ctx: &mut Ctx) {
    let mut w: HWorld<X> = HWorld::new(u64::MAX / 4);
    for i in 0..2 {
        let mut c = NodeCfg::new(8 + i + 8 * ctx.tape.choose(4) as usize);
        c.request_timeout_ms = *ctx.tape.pick(&[500u64, 1000]);
        c.request_retries = 1 + ctx.tape.choose(2) as u8;
        c.packet_filter = i == 0;
        w.add_node(c).await;
    }
    // the peer's IP is banned (permanently or for long) at the victim - the list is process-global
    let mut list = discv5::verif::permit_ban_snapshot();
    let perm = ctx.tape.choose(2) == 0;
    list.ban_ips.insert(w.nodes[1].addr.ip(), if perm { None } else { Some(std::time::Instant::now() + std::time::Duration::from_secs(100_000)) });
    discv5::verif::permit_ban_set(list);
    w.profile.jitter_ms = *ctx.tape.pick(&[0u32, 2]);
    let rounds = 1 + ctx.tape.choose(3);
    ctx.ev(format!("cfg bypass rounds={rounds} permanent_ban={perm} timeout={}ms", w.nodes[0].cfg.request_timeout_ms));
    ctx.fault("peer_ip_banned");
    // script: [V asks P (must work thanks to the exemption)] then [P asks V unsolicited (must be dropped)], repeated
    let gap = 4 * (w.nodes[0].cfg.request_timeout_ms.max(w.nodes[1].cfg.request_timeout_ms)) * 3;
    let mut at = 0u64;
    let mut script: Vec<(u64, usize, usize)> = vec![];
    for _ in 0..rounds {
        script.push((at, 0, 1));
        at += gap;
        script.push((at, 1, 0));
        at += gap;
    }
    for (t, node, peer) in &script {
        let with_enr = ctx.tape.choose(3) != 0;
        w.schedule(*t, Ev::Custom(X::Submit { node: *node, peer: *peer, with_enr, body: RequestBody::Ping { enr_seq: 1 } }));
    }
    w.horizon_ms = at + 1000;
    let mut next_rid = 1u64;
    let mut outcome: BTreeMap<u64, (usize, String)> = BTreeMap::new();
    let mut victim_outputs_in_quiet_phase = 0u32;
    let sibling = {
        let mut a = w.nodes[1].addr;
        a.set_port(a.port().wrapping_add(7));
        a
    };
    // phases: even index = V asks (exemption expected), odd = P asks (nothing outstanding at V)
    let phase_of = |t: u64| -> usize { (t / gap) as usize };
    loop {
        if ctx.failed() {
            break;
        }
        let obs = w.next().await;
        w.absorb_keys();
        match obs {
            Obs::Horizon => break,
            Obs::Datagram { from, out } => {
                let wi = w.tap(ctx, from, &out);
                if from == 0 && out.0 == sibling {
                    ctx.fail("c13.exemption-extended-to-other-address", format!("the victim emitted {} to {sibling}: a packet from that address (same IP as the peer it is waiting for, other port, IP banned) passed the filter although nothing is awaited from it", HWorld::<X>::describe(&w.wire[wi].dec)), &[]);
                    break;
                }
                if from == 0 && phase_of(now_ms()) % 2 == 0 && out.0 == w.nodes[1].addr && ctx.tape.choose(2) == 0 {
                    // while the victim waits for the banned peer's answer, another party at the same (banned) IP but
                    // another port sends an unsolicited packet: the exemption is for the awaited address only
                    let mut nonce = [0u8; 12];
                    nonce.copy_from_slice(&rand_bytes(ctx, 12));
                    let claimed = if ctx.tape.choose(2) == 0 { w.nodes[1].id } else { discv5::enr::NodeId::new(&{
                        let mut t = [0u8; 32];
                        t.copy_from_slice(&rand_bytes(ctx, 32));
                        t
                    }) };
                    let bytes = toolkit::encode_packet(11, nonce, PacketKind::Message { src_id: claimed }, rand_bytes(ctx, 44), &w.nodes[0].id);
                    ctx.fault("same_ip_other_port_while_exempt");
                    ctx.ev(format!("t={} unsolicited packet at the victim from {sibling} while it waits for {}", now_ms(), w.nodes[1].addr));
                    w.deliver(0, sibling, bytes, Origin::Injected { tag: "sibling-endpoint" });
                }
                if from == 0 && phase_of(now_ms()) % 2 == 1 {
                    // the victim must stay silent towards the banned peer while nothing is outstanding
                    ctx.fail("c13.banned-peer-answered-without-outstanding-exchange", format!("the victim emitted {} to the banned peer at {}ms although it was not waiting for anything from it", HWorld::<X>::describe(&w.wire[wi].dec), now_ms()), &[]);
                }
                w.route(ctx, wi);
            }
            Obs::Sched(Ev::Deliver { to, src, bytes, origin }) => w.deliver(to, src, bytes, origin),
            Obs::Sched(Ev::Custom(x)) => match x {
                X::Submit { node, peer, with_enr, body } => {
                    let id = next_rid;
                    next_rid += 1;
                    ctx.ev(format!("t={} n{node} submit r{id} -> n{peer} enr={with_enr}", now_ms()));
                    outcome.insert(id, (node, String::new()));
                    let contact = w.contact(peer, with_enr);
                    w.send_in(node, HandlerIn::Request(contact, Box::new(Request { id: rid(id), body })));
                }
                X::AppWhoAreYou { node, wref, enr } => {
                    w.send_in(node, HandlerIn::WhoAreYou(wref, enr));
                }
                X::AppRespond { node, to, resp } => {
                    w.send_in(node, HandlerIn::Response(to, Box::new(resp)));
                }
                _ => {}
            },
            Obs::Out { node, ev } => {
                let t = now_ms();
                if node == 0 && phase_of(t) % 2 == 1 && !matches!(ev, HandlerOut::ExpiredSessions(_)) {
                    victim_outputs_in_quiet_phase += 1;
                    ctx.fail("c13.banned-peer-datagram-passed-filter", format!("at {t}ms the victim's handler reacted to a datagram of the banned peer ({}) although nothing was outstanding", out_name(&ev)), &[]);
                    break;
                }
                if let HandlerOut::WhoAreYou(wref) = &ev {
                    if node == 0 && wref.0.socket_addr == sibling {
                        ctx.fail("c13.exemption-extended-to-other-address", format!("at {t}ms the victim's handler reacted to a packet from {sibling} (same banned IP as the awaited peer, other port): the exemption is for the awaited address only"), &[]);
                        break;
                    }
                }
                match ev {
                    HandlerOut::WhoAreYou(wref) => {
                        let enr = w.known_record(&wref.0.node_id);
                        w.schedule(0, Ev::Custom(X::AppWhoAreYou { node, wref, enr }));
                    }
                    HandlerOut::Request(from, req) => {
                        for resp in w.default_response(node, &from, &req, 1) {
                            w.schedule(0, Ev::Custom(X::AppRespond { node, to: from.clone(), resp }));
                        }
                    }
                    HandlerOut::Response(_, r) => {
                        ctx.ev(format!("t={t} n{node} out Response r{}", rid_num(&r.id)));
                        if let Some(o) = outcome.get_mut(&rid_num(&r.id)) {
                            o.1 = "response".into();
                        }
                    }
                    HandlerOut::RequestFailed(id, e) => {
                        ctx.ev(format!("t={t} n{node} out RequestFailed r{} {e:?}", rid_num(&id)));
                        if let Some(o) = outcome.get_mut(&rid_num(&id)) {
                            o.1 = format!("failed {e:?}");
                        }
                    }
                    _ => {}
                }
            }
        }
    }
    if !ctx.failed() {
        for (id, (node, o)) in &outcome {
            ctx.count("bypass_requests_checked");
            if *node == 0 && o != "response" {
                ctx.fail("c13.expected-response-filtered", format!("request r{id} of the victim to the banned peer ended as '{o}': the peer's answers must pass the filter while the victim waits for them"), &[]);
                break;
            }
            if *node == 1 && o == "response" {
                ctx.fail("c13.banned-peer-datagram-passed-filter", format!("request r{id} of the banned peer was answered by the victim although the victim was not waiting for anything from it"), &[]);
                break;
            }
        }
    }
    let _ = victim_outputs_in_quiet_phase;
    w.shutdown();
}

fn out_name(ev: &HandlerOut) -> &'static str {
    match ev {
        HandlerOut::Established(..) => "Established",
        HandlerOut::Request(..) => "Request",
        HandlerOut::Response(..) => "Response",
        HandlerOut::WhoAreYou(..) => "WhoAreYou",
        HandlerOut::RequestFailed(..) => "RequestFailed",
        HandlerOut::UnverifiableEnr { .. } => "UnverifiableEnr",
        HandlerOut::UnrecognizedFrame(..) => "UnrecognizedFrame",
        HandlerOut::ExpiredSessions(..) => "ExpiredSessions",
    }
}
