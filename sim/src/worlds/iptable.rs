//! W-T with `Enr` values and the real IP-diversity filters (obtained through `Discv5::new` with
//! `ip_limit`): C16.

use crate::{core::Ctx, ident, interpose};
use discv5::{
    enr::NodeId,
    kbucket::{ConnectionDirection, ConnectionState, Entry, FailureReason, InsertResult, KBucketsTable, Key, NodeStatus, UpdateResult},
    ConfigBuilder, Discv5, Enr, ListenConfig,
};
use std::collections::BTreeMap;

fn status(connected: bool, incoming: bool) -> NodeStatus {
    NodeStatus {
        state: if connected { ConnectionState::Connected } else { ConnectionState::Disconnected },
        direction: if incoming { ConnectionDirection::Incoming } else { ConnectionDirection::Outgoing },
    }
}

fn subnet_of(e: &Enr) -> Option<[u8; 3]> {
    e.ip4().map(|ip| {
        let o = ip.octets();
        [o[0], o[1], o[2]]
    })
}

pub fn run(ctx: &mut Ctx) {
    interpose::set_clock_manual(0);
    let pool = ident::pool();
    let local_ix = ctx.tape.choose(8) as usize;
    let n_ids = 30 + ctx.tape.choose(120) as usize;
    let n_subnets = 1 + ctx.tape.choose(3) as u8;
    let filler_pct = *ctx.tape.pick(&[0u32, 30, 60, 85]);
    let incoming_limit = if ctx.tape.choose(3) == 0 { ctx.tape.choose(17) as usize } else { 16 };
    let nops = 20 + ctx.tape.choose(if ctx.tier == crate::core::Tier::Quick { 260 } else { 300 });

    // the node listens on IPv4 (default), IPv6 only or both: the limits are about the IPv4 addresses in
    // the stored records whatever the node itself listens on
    let listen_mode = ctx.tape.choose(4).min(2);
    let local_spec = match listen_mode {
        1 => ident::RecSpec { ident: local_ix, seq: 1, ip4: None, ip6: Some((std::net::Ipv6Addr::LOCALHOST.octets(), 9000)), pad: 0 },
        _ => ident::RecSpec { ident: local_ix, seq: 1, ip4: Some(([127, 0, 0, 1], 9000)), ip6: None, pad: 0 },
    };
    let local_enr = ident::record(local_spec);
    ctx.ev(format!("cfg listen={}", ["ipv4", "ipv6", "dual-stack"][listen_mode as usize]));
    let config = {
        let listen = match listen_mode {
            1 => ListenConfig::Ipv6 { ip: std::net::Ipv6Addr::LOCALHOST, port: 9000 },
            2 => ListenConfig::DualStack { ipv4: std::net::Ipv4Addr::LOCALHOST, ipv4_port: 9000, ipv6: std::net::Ipv6Addr::LOCALHOST, ipv6_port: 9000 },
            _ => ListenConfig::default(),
        };
        let mut b = ConfigBuilder::new(listen);
        b.ip_limit().incoming_bucket_limit(incoming_limit);
        b.build()
    };
    let d = match Discv5::new(local_enr, pool[local_ix].key(), config) {
        Ok(d) => d,
        Err(e) => {
            ctx.fail("harness-error", format!("Discv5::new: {e}"), &[]);
            return;
        }
    };
    let mut table: KBucketsTable<NodeId, Enr> = d.kbuckets();
    let local_id = pool[local_ix].id;
    ctx.ev(format!("cfg local=#{local_ix} ids={n_ids} subnets={n_subnets} filler%={filler_pct} incoming_limit={incoming_limit} ops={nops}"));

    // identities used in this run: indices 8.. (0..8 are reserved for local ids)
    let ids: Vec<usize> = (8..8 + n_ids.min(ident::POOL - 8)).collect();
    // current record spec per identity
    let mut cur: BTreeMap<usize, ident::RecSpec> = BTreeMap::new();
    // fillers everywhere, or only in the most populated bucket (then the other buckets hold many
    // same-subnet nodes and the table-wide count hovers around its limit)
    let filler_everywhere = ctx.tape.choose(2) == 0;
    let big_bucket = {
        let mut by_bucket: BTreeMap<usize, usize> = BTreeMap::new();
        for &ix in &ids {
            *by_bucket.entry(table_index(&local_id, &pool[ix].id)).or_insert(0) += 1;
        }
        by_bucket.into_iter().max_by_key(|(_, n)| *n).map(|(b, _)| b).unwrap_or(255)
    };
    let mk_spec = |ctx: &mut Ctx, ix: usize, seq: u64| -> ident::RecSpec {
        let r = ctx.tape.choose(100);
        let filler_here = filler_everywhere || table_index(&local_id, &pool[ix].id) == big_bucket;
        if r < filler_pct && filler_here {
            if ctx.tape.choose(2) == 0 {
                ident::RecSpec { ident: ix, seq, ip4: None, ip6: None, pad: 0 }
            } else {
                let mut ip6 = [0u8; 16];
                ip6[0] = 0x20;
                ip6[1] = 0x01;
                ip6[15] = (ix % 250) as u8 + 1;
                ident::RecSpec { ident: ix, seq, ip4: None, ip6: Some((ip6, 9000)), pad: 0 }
            }
        } else {
            let sn = ctx.tape.choose(n_subnets as u32) as u8;
            let host = 1 + ctx.tape.choose(40) as u8;
            // unusual record shapes: an IPv4 address without a UDP port (still an IPv4 address for the
            // limits), or IPv4 and IPv6 endpoints together
            match ctx.tape.choose(8) {
                0 => ident::RecSpec { ident: ix, seq, ip4: Some(([10, 0, sn, host], 0)), ip6: None, pad: 0 },
                1 => {
                    let mut ip6 = [0u8; 16];
                    ip6[0] = 0x20;
                    ip6[1] = 0x01;
                    ip6[15] = (ix % 250) as u8 + 1;
                    ident::RecSpec { ident: ix, seq, ip4: Some(([10, 0, sn, host], if ctx.tape.choose(2) == 0 { 0 } else { 9000 })), ip6: Some((ip6, 9000)), pad: 0 }
                }
                _ => ident::RecSpec { ident: ix, seq, ip4: Some(([10, 0, sn, host], 9000)), ip6: None, pad: 0 },
            }
        }
    };
    for &ix in &ids {
        let s = mk_spec(ctx, ix, 1);
        cur.insert(ix, s);
    }
    // fill burst: identities of the most populated bucket first, fillers first
    let bucket_of = |ix: usize| -> usize { table_index(&local_id, &pool[ix].id) };
    let mut forced: std::collections::VecDeque<usize> = Default::default();
    if ctx.tape.choose(3) > 0 {
        let mut by_bucket: BTreeMap<usize, Vec<usize>> = BTreeMap::new();
        for &ix in &ids {
            by_bucket.entry(bucket_of(ix)).or_default().push(ix);
        }
        if let Some((_, members)) = by_bucket.iter().max_by_key(|(_, m)| m.len()) {
            let mut m = members.clone();
            m.sort_by_key(|ix| cur[ix].ip4.is_some());
            let n = (14 + ctx.tape.choose(6) as usize).min(m.len());
            forced.extend(m.into_iter().take(n));
        }
    }
    let nops = nops + forced.len() as u32;

    // the identity that most recently became a bucket's pending candidate: status reports, record
    // updates and entry operations are aimed at it more often than chance would (things that happen to
    // a candidate while it waits are where the limits are easiest to get wrong)
    let mut last_pending: Option<usize> = None;
    for _opn in 0..nops {
        if ctx.failed() {
            return;
        }
        let now = interpose::manual_now_ns() / 1_000_000;
        let (kind, ix, connected, incoming, arg) = if let Some(ix) = forced.pop_front() {
            (0u32, ix, ctx.tape.choose(4) != 0, false, 0u32)
        } else if last_pending.is_some() && ctx.tape.choose(4) == 0 {
            (*ctx.tape.pick(&[9u32, 9, 6, 12]), last_pending.unwrap(), ctx.tape.choose(2) == 1, ctx.tape.choose(3) == 0, ctx.tape.choose(6))
        } else {
            (ctx.tape.choose(16), *ctx.tape.pick(&ids), ctx.tape.choose(2) == 1, ctx.tape.choose(3) == 0, ctx.tape.choose(6))
        };
        let key: Key<NodeId> = Key::from(pool[ix].id);
        let b = bucket_of(ix);
        let mut no_ip_refused = false;
        let spec_now = cur[&ix];
        match kind {
            0..=5 => {
                let enr = ident::record(spec_now);
                let r = table.insert_or_update(&key, enr, status(connected, incoming));
                if spec_now.ip4.is_none() && matches!(r, InsertResult::Failed(FailureReason::BucketFilter) | InsertResult::Failed(FailureReason::TableFilter)) {
                    no_ip_refused = true;
                }
                match &r {
                    InsertResult::Failed(FailureReason::BucketFilter) => ctx.count("refused_bucket_filter"),
                    InsertResult::Failed(FailureReason::TableFilter) => ctx.count("refused_table_filter"),
                    InsertResult::Pending { .. } => {
                        last_pending = Some(ix);
                        ctx.count("pending_created")
                    }
                    _ => {}
                }
                ctx.ev(format!("t={now}ms insert_or_update #{ix} b{b} {} conn={connected} inc={incoming} -> {}", spec_str(&spec_now), ins_name(&r)));
            }
            6 | 7 | 8 => {
                // record update (new seq), possibly moving to another subnet
                let ns = mk_spec(ctx, ix, spec_now.seq + 1);
                cur.insert(ix, ns);
                let enr = ident::record(ns);
                let st = if arg < 3 { None } else { Some(if connected { ConnectionState::Connected } else { ConnectionState::Disconnected }) };
                let r = table.update_node(&key, enr, st);
                if ns.ip4.is_none() && matches!(r, UpdateResult::Failed(FailureReason::BucketFilter) | UpdateResult::Failed(FailureReason::TableFilter)) {
                    no_ip_refused = true;
                }
                match &r {
                    UpdateResult::Failed(FailureReason::BucketFilter) => ctx.count("refused_bucket_filter"),
                    UpdateResult::Failed(FailureReason::TableFilter) => ctx.count("refused_table_filter"),
                    _ => {}
                }
                ctx.ev(format!("t={now}ms update_node #{ix} b{b} {} -> {} state={st:?} -> {r:?}", spec_str(&spec_now), spec_str(&ns)));
            }
            9 | 10 => {
                let r = table.update_node_status(&key, if connected { ConnectionState::Connected } else { ConnectionState::Disconnected }, if arg < 3 { None } else { Some(if incoming { ConnectionDirection::Incoming } else { ConnectionDirection::Outgoing }) });
                ctx.ev(format!("t={now}ms update_node_status #{ix} b{b} conn={connected} -> {r:?}"));
            }
            11 => {
                let r = table.remove(&key);
                ctx.ev(format!("t={now}ms remove #{ix} b{b} -> {r}"));
            }
            12 => {
                let what = match table.entry(&key) {
                    // Entry::Absent::insert is documented to bypass the table filter ("Modifying values
                    // manually can bypass the internal table filters"), so it is not part of C16's op set.
                    Entry::Absent(_) => "absent".to_string(),
                    Entry::Present(e, _) => {
                        if arg < 2 {
                            e.remove();
                            "present.remove".into()
                        } else {
                            let _ = e.update(if connected { ConnectionState::Connected } else { ConnectionState::Disconnected }, None);
                            "present.update".into()
                        }
                    }
                    Entry::Pending(e, _) => {
                        let _ = e.update(status(connected, incoming));
                        "pending.update".into()
                    }
                    Entry::SelfEntry => "self".into(),
                };
                ctx.ev(format!("t={now}ms entry #{ix} b{b} {} {what}", spec_str(&spec_now)));
            }
            13 => {
                let n = table.iter().count();
                ctx.ev(format!("t={now}ms iter -> {n}"));
            }
            _ => {
                let d_ms = *ctx.tape.pick(&[0u64, 1_000, 30_000, 59_999, 60_000, 60_001, 600_000]);
                interpose::advance_manual(d_ms * 1_000_000);
                ctx.ev(format!("t={now}ms advance {d_ms}ms"));
            }
        }
        let mut applied = 0;
        while table.take_applied_pending().is_some() {
            applied += 1;
        }
        if applied > 0 {
            ctx.count("pending_applied");
        }
        if no_ip_refused {
            ctx.fail("c16.no-ipv4-refused", format!("node #{ix} has no IPv4 address but was refused by an IP filter"), &[]);
            return;
        }
        // ---- the limits
        let mut table_counts: BTreeMap<[u8; 3], usize> = BTreeMap::new();
        for (bi, bucket) in table.buckets_iter().enumerate() {
            let mut bc: BTreeMap<[u8; 3], usize> = BTreeMap::new();
            for n in bucket.iter() {
                if let Some(sn) = subnet_of(&n.value) {
                    *bc.entry(sn).or_insert(0) += 1;
                    *table_counts.entry(sn).or_insert(0) += 1;
                }
            }
            if let Some((sn, c)) = bc.iter().find(|(_, c)| **c > 2) {
                let tags: Vec<&str> = if applied > 0 { vec!["bucket-limit", "op-applied-pending"] } else { vec!["bucket-limit"] };
                ctx.fail("c16.bucket-limit", format!("bucket {bi} holds {c} nodes in {}.{}.{}.0/24 (limit 2)", sn[0], sn[1], sn[2]), &tags);
                return;
            }
        }
        if let Some(m) = table_counts.values().max() {
            if *m >= 9 {
                ctx.count("table_subnet_count_reached_9");
            }
        }
        if let Some((sn, c)) = table_counts.iter().find(|(_, c)| **c > 10) {
            let tags: Vec<&str> = if applied > 0 { vec!["table-limit", "op-applied-pending"] } else { vec!["table-limit"] };
            ctx.fail("c16.table-limit", format!("table holds {c} nodes in {}.{}.{}.0/24 (limit 10)", sn[0], sn[1], sn[2]), &tags);
            return;
        }
    }
    ctx.nontrivial = true;
    ctx.sample = Some(serde_json::json!({"entries": table.iter_ref().count()}));
}

fn table_index(local: &NodeId, other: &NodeId) -> usize {
    let l = local.raw();
    let o = other.raw();
    let d = crate::worlds::table::log2(&l, &o);
    (d as usize).saturating_sub(1)
}

fn spec_str(s: &ident::RecSpec) -> String {
    match (s.ip4, s.ip6) {
        (Some((ip, port)), v6) => format!("{}.{}.{}.{}{}{}/s{}", ip[0], ip[1], ip[2], ip[3], if port == 0 { "(no-udp)" } else { "" }, if v6.is_some() { "+v6" } else { "" }, s.seq),
        (None, Some(_)) => format!("v6only/s{}", s.seq),
        _ => format!("noaddr/s{}", s.seq),
    }
}

fn ins_name<T>(r: &InsertResult<T>) -> String {
    match r {
        InsertResult::Inserted => "Inserted".into(),
        InsertResult::Pending { .. } => "Pending".into(),
        InsertResult::StatusUpdated { .. } => "StatusUpdated".into(),
        InsertResult::ValueUpdated => "ValueUpdated".into(),
        InsertResult::Updated { .. } => "Updated".into(),
        InsertResult::UpdatedPending => "UpdatedPending".into(),
        InsertResult::Failed(r) => format!("Failed({r:?})"),
    }
}
