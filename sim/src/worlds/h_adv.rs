//! Adversary scenarios on W-H. The adversary has a full wire tap, knows every node id and record,
//! holds its own keys, can inject datagrams from any source address, but holds no honest secret key.
//!
//! C01: identity effects at an honest node must be justified by a valid id-signature over one of
//!      that node's own WHOAREYOUs (or by the node's own outgoing handshake).
//! C12 (handshake half): an incoming session is reported Established only with a record whose UDP
//!      address equals the observed source (or that carries none).

use super::h_traffic::short_id;
use super::hworld::*;
use crate::{core::Ctx, ident};
use discv5::verif::{toolkit, HandlerIn, HandlerOut, NodeAddress, PacketKind, Request, RequestBody, Response, ResponseBody, WhoAreYouRef};
use discv5::{
    enr::{CombinedKey, CombinedPublicKey, EnrKey, NodeId},
    verif::{ConnectionDirection, NodeContact},
    Enr, IpMode,
};
use std::{
    collections::BTreeMap,
    net::{IpAddr, SocketAddr},
};

pub enum X {
    AppWhoAreYou { node: usize, wref: WhoAreYouRef, enr: Option<Enr> },
    AppRespond { node: usize, to: NodeAddress, resp: Response },
    Submit { node: usize, peer: usize, with_enr: bool },
    Attack { plan: Plan },
    Inject { to: usize, src: SocketAddr, bytes: Vec<u8>, tag: &'static str },
    /// a recorded genuine message datagram of an honest peer is presented to the victim from another socket
    /// (the peer's IP on another port, or the adversary's address) by a party that holds no key at all
    PresentRecorded { pick: u32, sibling_port: bool },
}

#[derive(Clone, Debug)]
pub struct Plan {
    pub victim: usize,
    pub claimed: usize,
    /// source address: 0 = attacker's own, 1 = the claimed node's address (spoofed)
    pub spoof_src: bool,
    /// 0 own record, 1 the claimed node's genuine record, 2 none, 3 own record advertising the claimed node's address
    pub record: u32,
    /// seq of the attacker's record relative to the claimed node's: 0 lower, 1 equal, 2 higher
    pub seq_rel: u32,
    /// 0 attacker key, 1 garbage signature, 2 replay of a recorded genuine signature of the claimed node
    pub signer: u32,
    pub bad_ephem: bool,
    pub follow_up: bool,
    /// the attacker handshakes under its own id (C12: record address vs. observed source)
    pub as_self: bool,
}

fn rand_bytes(ctx: &mut Ctx, n: usize) -> Vec<u8> {
    let mut s = (ctx.tape.choose(1 << 30) as u64) << 8 | 0x3d;
    let mut v = vec![0u8; n];
    for c in v.chunks_mut(8) {
        let b = crate::prng::splitmix(&mut s).to_le_bytes();
        let l = c.len();
        c.copy_from_slice(&b[..l]);
    }
    v
}

/// A record of `ident` advertising `addr` (either address family).
pub fn rec_at(ident: usize, seq: u64, addr: SocketAddr, pad: u16) -> Enr {
    match addr.ip() {
        IpAddr::V4(v) => ident::record(ident::RecSpec { ident, seq, ip4: Some((v.octets(), addr.port())), ip6: None, pad }),
        IpAddr::V6(v) => ident::record(ident::RecSpec { ident, seq, ip4: None, ip6: Some((v.octets(), addr.port())), pad }),
    }
}

pub struct Adversary {
    pub ident: usize,
    pub key: CombinedKey,
    pub id: NodeId,
    pub addr: SocketAddr,
}

impl Adversary {
    pub fn new(ident: usize, addr: SocketAddr) -> Self {
        let i = &ident::pool()[ident];
        Adversary { ident, key: i.key(), id: i.id, addr }
    }
    pub fn record(&self, seq: u64, addr: SocketAddr) -> Enr {
        rec_at(self.ident, seq, addr, 0)
    }
}

/// What the harness knows about identity proofs delivered to a node.
#[derive(Default)]
pub struct ProofLedger {
    /// WHOAREYOUs emitted by node: (t, dst addr, dst id, challenge data)
    pub challenges: Vec<(usize, u64, SocketAddr, NodeId, Vec<u8>)>,
    /// handshakes delivered to node: (node, t, src addr, src id, sig, ephem)
    pub handshakes: Vec<(usize, u64, SocketAddr, NodeId, Vec<u8>, Vec<u8>)>,
    /// handshakes emitted by node: (node, t, dst addr, dst id)
    pub own_handshakes: Vec<(usize, u64, SocketAddr, NodeId)>,
    /// requests the node's application submitted: (node, contact id, contact addr)
    pub own_contacts: Vec<(usize, NodeId, SocketAddr)>,
}

impl ProofLedger {
    pub fn proven_by_signature(&self, node: usize, node_id_of_node: &NodeId, claimed: &NodeId, addr: Option<SocketAddr>, pubkey: Option<&CombinedPublicKey>) -> bool {
        let Some(pk) = pubkey else { return false };
        for (n, th, src, sid, sig, ephem) in &self.handshakes {
            if *n != node || sid != claimed || addr.map(|a| a != *src).unwrap_or(false) {
                continue;
            }
            for (cn, tc, dst, did, cd) in &self.challenges {
                if *cn == node && tc <= th && dst == src && did == claimed && toolkit::verify_id_signature(pk, ephem, cd, node_id_of_node, sig) {
                    return true;
                }
            }
        }
        false
    }
    /// Like `proven_by_signature`, but every challenge justifies only one session: returns the index of a
    /// not yet consumed challenge of `node` that a delivered handshake of `claimed` verifies against.
    pub fn fresh_proof(&self, node: usize, node_id_of_node: &NodeId, claimed: &NodeId, pubkey: Option<&CombinedPublicKey>, consumed: &std::collections::BTreeSet<usize>) -> Option<usize> {
        let pk = pubkey?;
        for (n, th, src, sid, sig, ephem) in &self.handshakes {
            if *n != node || sid != claimed {
                continue;
            }
            for (ci, (cn, tc, dst, did, cd)) in self.challenges.iter().enumerate() {
                if *cn == node && tc <= th && dst == src && did == claimed && !consumed.contains(&ci) && toolkit::verify_id_signature(pk, ephem, cd, node_id_of_node, sig) {
                    return Some(ci);
                }
            }
        }
        None
    }
    pub fn own_initiative(&self, node: usize, claimed: &NodeId, addr: Option<SocketAddr>) -> bool {
        self.own_handshakes.iter().any(|(n, _, dst, did)| *n == node && did == claimed && addr.map(|a| a == *dst).unwrap_or(true))
            && self.own_contacts.iter().any(|(n, cid, caddr)| *n == node && cid == claimed && addr.map(|a| a == *caddr).unwrap_or(true))
    }
}

pub fn run_c01(ctx: &mut Ctx) {
    block_on(ctx, |ctx| Box::pin(c01_async(ctx)));
}

async fn c01_async(ctx: &mut Ctx) {
    let n_honest = 2 + ctx.tape.choose(2) as usize; // V=0, X=1, maybe Y=2
    let mut w: HWorld<X> = HWorld::new(20_000);
    // a fifth of the runs happen on an IPv6-only network
    let v6 = ctx.tape.choose(5) == 0;
    if v6 {
        ctx.count("ipv6_runs");
        w.attacker_addrs = vec!["[fd00:9::1]:30303".parse().unwrap(), "[fd00:9::2]:30304".parse().unwrap()];
        // the adversary's packets sometimes arrive with an IPv4-mapped source (what a socket that is not v6-only
        // reports for an IPv4 sender)
        if ctx.tape.choose(3) == 0 {
            ctx.fault("attacker_ipv4_mapped_source");
            w.attacker_addrs[0] = "[::ffff:10.9.0.1]:30303".parse().unwrap();
        }
    }
    for i in 0..n_honest {
        let mut c = NodeCfg::new(8 + i);
        c.v6 = v6;
        c.enr_seq = 1 + ctx.tape.choose(3) as u64 * 2;
        c.request_timeout_ms = *ctx.tape.pick(&[1000u64, 300]);
        // sometimes a genuine peer's record advertises another port than it really sends from
        c.advertise_other_port = i > 0 && ctx.tape.choose(5) == 0;
        w.add_node(c).await;
    }
    let adv = Adversary::new(160 + ctx.tape.choose(4) as usize, w.attacker_addrs[0]);
    // what V's application knows about other ids: 0 genuine record, 1 nothing, 2 stale (lower seq)
    let knowledge = ctx.tape.choose(3);
    let x_running = ctx.tape.choose(4) != 0;
    if !x_running {
        w.crash(1);
    }
    // a peer with a genuine key of its own that lies about *who it is* after an honest handshake: asked
    // for its record (FINDNODE [0], the request a handler sends by itself to a contact dialled without a
    // record) it presents a validly signed record of another identity
    let lying_peer: Option<usize> = if ctx.tape.choose(3) == 0 { Some(1 + ctx.tape.choose((n_honest - 1) as u32) as usize) } else { None };
    let lie_kind = ctx.tape.choose(4);
    // what the victim's application already holds about the adversary's *own* identity when that identity
    // handshakes (its handshakes attach a record with seq 3): nothing, an older record, one with the same
    // sequence number but other content, or a newer one
    let adv_known: Option<Enr> = match ctx.tape.choose(4) {
        0 => None,
        k => {
            let a = w.attacker_addrs[0];
            Some(rec_at(adv.ident, 1 + k as u64, a, 1))
        }
    };
    let mut last_self_attached: Option<Enr> = None;
    w.profile.jitter_ms = *ctx.tape.pick(&[0u32, 3]);
    ctx.ev(format!("cfg honest={n_honest} x_running={x_running} knowledge={knowledge} seqs={:?} attacker={}", w.nodes.iter().map(|n| n.enr.seq()).collect::<Vec<_>>(), short_id(&adv.id)));
    // registry id -> public key
    let mut registry: BTreeMap<[u8; 32], CombinedPublicKey> = BTreeMap::new();
    for n in &w.nodes {
        registry.insert(n.id.raw(), n.enr.public_key());
    }
    registry.insert(adv.id.raw(), adv.key.public());

    // ---- genuine traffic
    for _ in 0..ctx.tape.choose(5) {
        let node = ctx.tape.choose(n_honest as u32) as usize;
        let mut peer = ctx.tape.choose(n_honest as u32) as usize;
        if peer == node {
            peer = (peer + 1) % n_honest;
        }
        let at = ctx.tape.choose(3000) as u64;
        w.schedule(at, Ev::Custom(X::Submit { node, peer, with_enr: ctx.tape.choose(3) != 0 }));
    }
    // ---- attacks
    let n_att = 1 + ctx.tape.choose(3);
    for _ in 0..n_att {
        let victim = 0;
        let claimed = 1 + ctx.tape.choose((n_honest - 1) as u32) as usize;
        let plan = Plan {
            victim,
            claimed,
            spoof_src: ctx.tape.choose(4) == 0,
            record: ctx.tape.choose(4),
            seq_rel: ctx.tape.choose(3),
            signer: ctx.tape.choose(4).min(2),
            bad_ephem: ctx.tape.choose(6) == 0,
            follow_up: ctx.tape.choose(2) == 1,
            as_self: ctx.tape.choose(4) == 0,
        };
        let at = ctx.tape.choose(4000) as u64;
        w.schedule(at, Ev::Custom(X::Attack { plan }));
    }

    for _ in 0..ctx.tape.choose(3) {
        let at = 200 + ctx.tape.choose(4500) as u64;
        w.schedule(at, Ev::Custom(X::PresentRecorded { pick: ctx.tape.choose(64), sibling_port: ctx.tape.choose(3) != 0 }));
    }

    let mut ledger = ProofLedger::default();
    let mut pending_attacks: Vec<(Plan, SocketAddr)> = vec![];
    // recorded genuine handshakes per claimed node: (sig, ephem)
    let mut genuine_sigs: BTreeMap<usize, (Vec<u8>, Vec<u8>)> = BTreeMap::new();
    let mut next_rid = 1u64;
    let mut keys_checked = 0usize;
    let mut consumed: std::collections::BTreeSet<usize> = Default::default();

    loop {
        if ctx.failed() {
            break;
        }
        let obs = w.next().await;
        w.absorb_keys();
        // sessions keyed at an honest node as *recipient* must be proven by signature
        while keys_checked < w.keylog.len() {
            let (_, k) = w.keylog[keys_checked].clone();
            keys_checked += 1;
            if k.initiator {
                continue;
            }
            if let Some(node) = w.node_by_id(&k.local) {
                ctx.count("recipient_sessions_checked");
                let ok = ledger.proven_by_signature(node, &k.local, &k.remote, None, registry.get(&k.remote.raw()));
                if !ok {
                    let tags: Vec<&str> = vec!["session-without-proof"];
                    ctx.fail(
                        "c01.session-without-identity-proof",
                        format!("n{node} derived session keys for remote id {} although no handshake signed by that id's key over one of n{node}'s own WHOAREYOUs was delivered", short_id(&k.remote)),
                        &tags,
                    );
                } else {
                    // "its own *fresh* WHOAREYOU": each challenge is answered once; whoever re-presents an
                    // already used answer does not hold the key
                    match ledger.fresh_proof(node, &k.local, &k.remote, registry.get(&k.remote.raw()), &consumed) {
                        Some(ci) => {
                            consumed.insert(ci);
                        }
                        None => {
                            ctx.fail(
                                "c01.session-from-replayed-proof",
                                format!("n{node} derived session keys for remote id {} again from a handshake answering a WHOAREYOU that had already been answered (a replay proves nothing about who sent it)", short_id(&k.remote)),
                                &["session-without-proof"],
                            );
                        }
                    }
                }
            }
        }
        if ctx.failed() {
            break;
        }
        match obs {
            Obs::Horizon => break,
            Obs::Datagram { from, out } => {
                let wi = w.tap(ctx, from, &out);
                let rec = w.wire[wi].clone();
                if let Some(d) = &rec.dec {
                    match &d.kind {
                        PacketKind::WhoAreYou { .. } => {
                            ledger.challenges.push((from, now_ms(), rec.dst, rec.dst_id, d.authenticated_data.clone()));
                            // an attack waiting for this challenge?
                            if let Some(pos) = pending_attacks.iter().position(|(p, src)| p.victim == from && *src == rec.dst && (if p.as_self { adv.id } else { w.nodes[p.claimed].id }) == rec.dst_id) {
                                let (plan, src) = pending_attacks.remove(pos);
                                if let Some(bytes) = craft_handshake(ctx, &w, &adv, &plan, &d.authenticated_data, src, &genuine_sigs) {
                                    if plan.as_self {
                                        last_self_attached = toolkit::decode_packet(&w.nodes[plan.victim].id, &bytes).ok().and_then(|p| match p.kind {
                                            PacketKind::Handshake { enr_record, .. } => enr_record,
                                            _ => None,
                                        });
                                    }
                                    ctx.ev(format!("t={} ATTACK handshake claiming n{} from {src} {plan:?}", now_ms(), plan.claimed));
                                    ctx.fault("forged_handshake");
                                    w.schedule(1, Ev::Custom(X::Inject { to: plan.victim, src, bytes, tag: "forged-handshake" }));
                                }
                                // a second, differently made attempt against the same WHOAREYOU (a rejected handshake leaves
                                // the challenge outstanding): whatever the first attempt carried must not help the second
                                if plan.follow_up && !plan.as_self {
                                    let second = Plan { record: ctx.tape.choose(4), signer: ctx.tape.choose(4).min(2), seq_rel: ctx.tape.choose(3), bad_ephem: false, follow_up: false, ..plan.clone() };
                                    if let Some(bytes) = craft_handshake(ctx, &w, &adv, &second, &d.authenticated_data, src, &genuine_sigs) {
                                        let tmo = w.nodes[plan.victim].cfg.request_timeout_ms;
                                        let at = 2 + ctx.tape.choose((tmo / 2) as u32) as u64;
                                        ctx.ev(format!("t={} ATTACK second handshake against the same WHOAREYOU in {at}ms {second:?}", now_ms()));
                                        ctx.fault("second_forged_handshake_same_challenge");
                                        w.schedule(at, Ev::Custom(X::Inject { to: plan.victim, src, bytes, tag: "forged-handshake-second" }));
                                    }
                                }
                            }
                        }
                        PacketKind::Handshake { id_nonce_sig, ephem_pubkey, .. } => {
                            ledger.own_handshakes.push((from, now_ms(), rec.dst, rec.dst_id));
                            genuine_sigs.insert(from, (id_nonce_sig.clone(), ephem_pubkey.clone()));
                            // the adversary damages the message part of a genuine handshake in flight (the id
                            // signature does not cover it) and keeps re-presenting the damaged datagram
                            if let Some(to) = w.node_by_addr(&rec.dst) {
                                let first_tx = !w.wire[..wi].iter().any(|r| r.from == from && r.bytes == rec.bytes);
                                if first_tx && ctx.tape.choose(6) == 0 {
                                    let mut bytes = rec.bytes.clone();
                                    let l = bytes.len();
                                    bytes[l - 1 - ctx.tape.choose(8) as usize] ^= 1 << ctx.tape.choose(8);
                                    ctx.fault("genuine_handshake_damaged_and_replayed");
                                    ctx.ev(format!("t={} n{from}->n{to} HANDSHAKE damaged in its message part, delivered repeatedly", now_ms()));
                                    let tmo = w.nodes[to].cfg.request_timeout_ms;
                                    let mut at = 1u64;
                                    for _ in 0..(2 + ctx.tape.choose(3)) {
                                        w.schedule(at, Ev::Custom(X::Inject { to, src: rec.src, bytes: bytes.clone(), tag: "damaged-genuine-handshake" }));
                                        at += 1 + ctx.tape.choose(tmo as u32) as u64;
                                    }
                                    if ctx.tape.choose(2) == 0 {
                                        w.schedule(at, Ev::Custom(X::Inject { to, src: rec.src, bytes: rec.bytes.clone(), tag: "late-genuine-handshake" }));
                                    }
                                    continue;
                                }
                            }
                        }
                        _ => {}
                    }
                }
                w.route(ctx, wi);
            }
            Obs::Sched(Ev::Deliver { to, src, bytes, origin }) => {
                if w.nodes[to].alive {
                    note_delivery(&mut ledger, &w, to, src, &bytes);
                    w.deliver(to, src, bytes, origin);
                }
            }
            Obs::Sched(Ev::Custom(x)) => match x {
                X::Submit { node, peer, with_enr } => {
                    if w.nodes[node].alive {
                        let id = next_rid;
                        next_rid += 1;
                        ctx.ev(format!("t={} n{node} submit r{id} -> n{peer} PING enr={with_enr}", now_ms()));
                        let contact = w.contact(peer, with_enr);
                        ledger.own_contacts.push((node, w.nodes[peer].id, w.nodes[peer].addr));
                        w.send_in(node, HandlerIn::Request(contact, Box::new(Request { id: rid(id), body: RequestBody::Ping { enr_seq: 1 } })));
                    }
                }
                X::AppWhoAreYou { node, wref, enr } => {
                    w.send_in(node, HandlerIn::WhoAreYou(wref, enr));
                }
                X::AppRespond { node, to, resp } => {
                    w.send_in(node, HandlerIn::Response(to, Box::new(resp)));
                }
                X::Attack { plan } => {
                    // opening move: a random packet claiming the victim's peer
                    let src = if plan.spoof_src && !plan.as_self { w.nodes[plan.claimed].addr } else { adv.addr };
                    let ct = rand_bytes(ctx, 44);
                    let mut nonce = [0u8; 12];
                    nonce.copy_from_slice(&rand_bytes(ctx, 12));
                    let claimed_id = if plan.as_self { adv.id } else { w.nodes[plan.claimed].id };
                    let bytes = toolkit::encode_packet(3, nonce, PacketKind::Message { src_id: claimed_id }, ct, &w.nodes[plan.victim].id);
                    ctx.fault("attacker_random_packet");
                    ctx.ev(format!("t={} ATTACK random packet claiming {} from {src}", now_ms(), if plan.as_self { "its own id".to_string() } else { format!("n{}", plan.claimed) }));
                    pending_attacks.push((plan.clone(), src));
                    note_delivery(&mut ledger, &w, plan.victim, src, &bytes);
                    w.deliver(plan.victim, src, bytes, Origin::Injected { tag: "attacker-random" });
                }
                X::PresentRecorded { pick, sibling_port } => {
                    let vaddr = w.nodes[0].addr;
                    let cands: Vec<usize> = w.wire.iter().enumerate().filter(|(_, r)| r.from != 0 && r.dst == vaddr && matches!(&r.dec, Some(d) if matches!(d.kind, PacketKind::Message { .. }))).map(|(i, _)| i).collect();
                    if !cands.is_empty() && w.nodes[0].alive {
                        let wi = cands[pick as usize % cands.len()];
                        let r = w.wire[wi].clone();
                        let src = if sibling_port {
                            let mut a = r.src;
                            a.set_port(r.src.port().wrapping_add(11));
                            a
                        } else {
                            adv.addr
                        };
                        ctx.fault("recorded_message_presented_from_other_socket");
                        ctx.ev(format!("t={} ATTACK recorded message #{wi} of n{} presented to the victim from {src}", now_ms(), r.from));
                        w.deliver(0, src, r.bytes.clone(), Origin::Mutated { wire: wi, how: "presented-from-other-socket" });
                    }
                }
                X::Inject { to, src, bytes, tag } => {
                    if w.nodes[to].alive {
                        note_delivery(&mut ledger, &w, to, src, &bytes);
                        w.deliver(to, src, bytes, Origin::Injected { tag });
                    }
                }
            },
            Obs::Out { node, ev } => {
                let t = now_ms();
                let my_id = w.nodes[node].id;
                // identity effects
                let effect: Option<(NodeId, SocketAddr, String)> = match &ev {
                    HandlerOut::Established(enr, addr, dir) => Some((enr.node_id(), *addr, format!("Established({dir:?})"))),
                    HandlerOut::Request(na, rq) => Some((na.node_id, na.socket_addr, format!("Request({})", rq.body))),
                    HandlerOut::Response(na, _) => Some((na.node_id, na.socket_addr, "Response".into())),
                    HandlerOut::UnverifiableEnr { node_id, socket, .. } => Some((*node_id, *socket, "UnverifiableEnr".into())),
                    _ => None,
                };
                if let Some((claimed, addr, what)) = effect {
                    ctx.ev(format!("t={t} n{node} out {what} naming {} @ {addr}", short_id(&claimed)));
                    ctx.count("identity_effects_checked");
                    let j1 = ledger.proven_by_signature(node, &my_id, &claimed, Some(addr), registry.get(&claimed.raw()));
                    let j2 = ledger.own_initiative(node, &claimed, Some(addr));
                    if !j1 && !j2 {
                        let honest_victim = w.node_by_id(&claimed).is_some();
                        let tags: Vec<&str> = if honest_victim { vec!["identity-effect-unproven", "claimed-honest-id"] } else { vec!["identity-effect-unproven"] };
                        ctx.fail(
                            "c01.identity-effect-without-proof",
                            format!("n{node} reported {what} for id {} at {addr}, but no handshake from that address signed by that id's key over one of n{node}'s own WHOAREYOUs was delivered (and n{node} did not dial that contact itself)", short_id(&claimed)),
                            &tags,
                        );
                        break;
                    }
                    if j1 && claimed == adv.id {
                        ctx.count("attacker_proved_its_own_id");
                    }
                }
                // C12: a record learnt from a handshake replaces the one already held only with a strictly higher
                // sequence number (the adversary's own identity handshakes with a seq-3 record of other content
                // than the one the victim's application holds)
                if let HandlerOut::Established(enr, _, _) = &ev {
                    if enr.node_id() == adv.id {
                        if let (Some(known), Some(attached)) = (&adv_known, &last_self_attached) {
                            ctx.count("known_vs_attached_record_checked");
                            let expect = if attached.seq() > known.seq() { attached } else { known };
                            if enr != expect {
                                ctx.fail(
                                    "c12.record-replaced-without-higher-seq",
                                    format!("n{node} reported Established for {} with the record of seq {} attached to the handshake although it held one with seq {} (a record replaces a held one only with a strictly higher sequence number)", short_id(&adv.id), enr.seq(), known.seq()),
                                    &[],
                                );
                                break;
                            }
                        }
                    }
                }
                // C12 handshake half: incoming Established => record address equals the observed source
                if let HandlerOut::Established(enr, addr, ConnectionDirection::Incoming) = &ev {
                    if let (Some(adv6), SocketAddr::V6(obs6)) = (enr.udp6_socket(), addr) {
                        if (adv6.ip(), adv6.port()) != (obs6.ip(), obs6.port()) {
                            ctx.fail("c12.established-address-mismatch", format!("n{node} reported Established(Incoming) for {} with record address {adv6} but packets came from {obs6}", short_id(&enr.node_id())), &[]);
                            break;
                        }
                    }
                    if let (Some(adv4), SocketAddr::V4(obs4)) = (enr.udp4_socket(), addr) {
                        if adv4 != *obs4 {
                            ctx.fail("c12.established-address-mismatch", format!("n{node} reported Established(Incoming) for {} with record address {adv4} but packets came from {obs4}", short_id(&enr.node_id())), &[]);
                            break;
                        }
                    }
                }
                // application role
                match ev {
                    HandlerOut::WhoAreYou(wref) => {
                        let known = w.known_record(&wref.0.node_id);
                        let enr = if wref.0.node_id == adv.id {
                            adv_known.clone()
                        } else {
                            match knowledge {
                            0 => known,
                            1 => None,
                            _ => known.map(|e| {
                                // stale: the genuine record with a lower sequence number
                                let idx = w.node_by_id(&e.node_id()).unwrap();
                                let mut c = w.nodes[idx].cfg.clone();
                                c.enr_seq = c.enr_seq.saturating_sub(1).max(1);
                                HWorld::<X>::record_for(&c, idx)
                            }),
                            }
                        };
                        ctx.ev(format!("t={t} n{node} out WhoAreYou({}) -> app knows seq {:?}", short_id(&wref.0.node_id), enr.as_ref().map(|e| e.seq())));
                        w.schedule(0, Ev::Custom(X::AppWhoAreYou { node, wref, enr }));
                    }
                    HandlerOut::Request(from, req) => {
                        let asks_record = matches!(&req.body, RequestBody::FindNode { distances } if distances.as_slice() == [0]);
                        if lying_peer == Some(node) && asks_record {
                            // another identity: a third honest node if there is one, else an identity of the adversary
                            let other = (0..n_honest).find(|j| *j != node && w.node_by_id(&from.node_id) != Some(*j));
                            let my_addr = w.nodes[node].addr;
                            let foreign: Enr = match (lie_kind, other) {
                                // the other node's genuine record (advertises the other node's address)
                                (0, Some(j)) => w.nodes[j].enr.clone(),
                                // a genuine record of the other node that carries no address
                                (1, Some(j)) => ident::record(ident::RecSpec { ident: w.nodes[j].cfg.ident, seq: w.nodes[j].enr.seq() + 1, ip4: None, ip6: None, pad: 0 }),
                                // a second identity (keys held by the liar) advertising the liar's own address
                                (2, _) => rec_at(adv.ident, 2, my_addr, 0),
                                // a second identity without any address
                                _ => ident::record(ident::RecSpec { ident: adv.ident, seq: 2, ip4: None, ip6: None, pad: 0 }),
                            };
                            ctx.fault("peer_presents_foreign_record");
                            ctx.ev(format!("t={t} n{node} LIES: answers FINDNODE[0] with the record of {}", short_id(&foreign.node_id())));
                            let resp = Response { id: req.id.clone(), body: ResponseBody::Nodes { total: 1, nodes: vec![foreign] } };
                            w.schedule(0, Ev::Custom(X::AppRespond { node, to: from.clone(), resp }));
                        } else {
                            for resp in w.default_response(node, &from, &req, 1) {
                                w.schedule(0, Ev::Custom(X::AppRespond { node, to: from.clone(), resp }));
                            }
                        }
                    }
                    _ => {}
                }
            }
        }
    }
    ctx.sample = Some(serde_json::json!({"datagrams": w.wire.len(), "handshakes_delivered": ledger.handshakes.len()}));
    w.shutdown();
}

fn note_delivery<Y>(ledger: &mut ProofLedger, w: &HWorld<Y>, to: usize, src: SocketAddr, bytes: &[u8]) {
    if let Ok(d) = toolkit::decode_packet(&w.nodes[to].id, bytes) {
        if let PacketKind::Handshake { src_id, id_nonce_sig, ephem_pubkey, .. } = d.kind {
            ledger.handshakes.push((to, now_ms(), src, src_id, id_nonce_sig, ephem_pubkey));
        }
    }
}

/// Build the forged handshake for `plan` answering the victim's WHOAREYOU (`challenge_data`).
pub fn craft_handshake<Y>(ctx: &mut Ctx, w: &HWorld<Y>, adv: &Adversary, plan: &Plan, challenge_data: &[u8], src: SocketAddr, genuine: &BTreeMap<usize, (Vec<u8>, Vec<u8>)>) -> Option<Vec<u8>> {
    let v = &w.nodes[plan.victim];
    let x = &w.nodes[plan.claimed];
    let victim_contact = NodeContact::try_from_enr(v.enr.clone(), if v.cfg.v6 { IpMode::Ip6 } else { IpMode::default() }).ok()?;
    if plan.as_self {
        // a genuine handshake under the attacker's own id; only the advertised address varies:
        // record 0/1: the real source, 2: none, 3: somebody else's address
        let (ikey, _rkey, ephem) = toolkit::initiator_keys(&adv.id, &victim_contact, challenge_data)?;
        let sig = toolkit::sign_id_nonce(&adv.key, challenge_data, &ephem, &v.id)?;
        let record = match plan.record {
            2 => ident::record(ident::RecSpec { ident: adv.ident, seq: 3, ip4: None, ip6: None, pad: 0 }),
            3 => adv.record(3, x.addr),
            _ => adv.record(3, src),
        };
        let kind = PacketKind::Handshake { src_id: adv.id, id_nonce_sig: sig, ephem_pubkey: ephem, enr_record: Some(record) };
        let mut nonce = [0u8; 12];
        nonce.copy_from_slice(&rand_bytes(ctx, 12));
        let iv = 77u128 ^ ctx.tape.choose(1 << 20) as u128;
        let aad = toolkit::authenticated_data(iv, nonce, kind.clone());
        let msg = Request { id: rid(0x5E1F), body: RequestBody::Ping { enr_seq: 3 } }.encode();
        let ct = toolkit::encrypt(&ikey, nonce, &msg, &aad)?;
        return Some(toolkit::encode_packet(iv, nonce, kind, ct, &v.id));
    }
    // keys as the claimed id would derive them
    let (ikey, _rkey, mut ephem) = toolkit::initiator_keys(&x.id, &victim_contact, challenge_data)?;
    let xseq = x.enr.seq();
    let seq = match plan.seq_rel {
        0 => xseq.saturating_sub(1).max(1),
        1 => xseq,
        _ => xseq + 5,
    };
    let record = match plan.record {
        0 => Some(adv.record(seq, src)),
        1 => Some(x.enr.clone()),
        2 => None,
        _ => Some(adv.record(seq, x.addr)),
    };
    let mut sig = match plan.signer {
        0 => toolkit::sign_id_nonce(&adv.key, challenge_data, &ephem, &v.id)?,
        1 => rand_bytes(ctx, 64),
        _ => match genuine.get(&plan.claimed) {
            Some((s, e)) => {
                // replay of a genuine signature together with its ephemeral key
                ephem = e.clone();
                s.clone()
            }
            None => toolkit::sign_id_nonce(&adv.key, challenge_data, &ephem, &v.id)?,
        },
    };
    if plan.bad_ephem {
        ephem = rand_bytes(ctx, 33);
        if plan.signer == 0 {
            sig = toolkit::sign_id_nonce(&adv.key, challenge_data, &ephem, &v.id)?;
        }
    }
    let kind = PacketKind::Handshake { src_id: x.id, id_nonce_sig: sig, ephem_pubkey: ephem, enr_record: record };
    let mut nonce = [0u8; 12];
    nonce.copy_from_slice(&rand_bytes(ctx, 12));
    let iv = 0x1234_5678_9abc_def0_u128 ^ ctx.tape.choose(1 << 20) as u128;
    let aad = toolkit::authenticated_data(iv, nonce, kind.clone());
    let msg = Request { id: rid(0xA77AC4), body: RequestBody::Ping { enr_seq: 1 } }.encode();
    let ct = toolkit::encrypt(&ikey, nonce, &msg, &aad)?;
    let bytes = toolkit::encode_packet(iv, nonce, kind, ct, &v.id);
    let _ = plan.follow_up;
    if bytes.len() > 1280 {
        return None;
    }
    Some(bytes)
}
