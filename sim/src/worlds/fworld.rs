//! W-F: 2-5 complete `Discv5` nodes (public API, service, handler, sessions, routing table, query
//! pool, receive path) on the virtual network. Everything above the two socket I/O loops is real;
//! all nodes are honest. The harness is the network (with delivery faults), the applications
//! (API calls, TALK answers) and the crash/restart switch.
//!
//! End-to-end monitors, each attributed to the property of the check that runs the scenario:
//! every API future resolves within a bound after the faults stop (C09 for lookups), no honest node
//! is ever banned (C11), all exemption maps are empty at quiescence (C13), nonces are unique per
//! session key (C19); plus the global wire monitors and "no panic".

use super::hworld::{block_on, now_ms, NetProfile};
use super::sworld::short;
use crate::{core::Ctx, ident};
use discv5::{
    enr::NodeId,
    verif::{self, net::Endpoint, toolkit, Message, PacketKind, RequestBody, ResponseBody, SessionKeys},
    ConfigBuilder, Discv5, Enr, Event, ListenConfig, TokioExecutor,
};
use std::{
    cmp::Reverse,
    collections::{BTreeMap, BTreeSet, BinaryHeap},
    future::Future,
    net::{IpAddr, Ipv4Addr, SocketAddr},
    pin::Pin,
    task::Poll,
    time::Duration,
};
use tokio::{sync::mpsc, task::JoinHandle};

#[derive(Default, Clone, Copy)]
pub struct Which {
    pub c09: bool,
    pub c10: bool,
    pub c11: bool,
    pub c13: bool,
    pub c14: bool,
    pub c19: bool,
    pub c20: bool,
}

struct FNode {
    ident: usize,
    id: NodeId,
    addr: SocketAddr,
    enr: Enr,
    d: Option<Discv5>,
    ep: Option<Endpoint>,
    events: Option<mpsc::Receiver<Event>>,
    timeout_ms: u64,
    retries: u8,
    session_cap: usize,
    session_ttl_ms: u64,
}

fn faddr(i: usize) -> SocketAddr {
    SocketAddr::new(IpAddr::V4(Ipv4Addr::new(10, 2, (i + 1) as u8, 1)), 9000)
}

async fn start_node(n: &mut FNode) -> Result<(), String> {
    let (ip, port) = match n.addr {
        SocketAddr::V4(a) => (*a.ip(), a.port()),
        _ => unreachable!(),
    };
    let mut b = ConfigBuilder::new(ListenConfig::Ipv4 { ip, port });
    b.request_timeout(Duration::from_millis(n.timeout_ms)).request_retries(n.retries).disable_enr_update().query_peer_timeout(Duration::from_millis(2 * n.timeout_ms)).query_timeout(Duration::from_secs(20)).ping_interval(Duration::from_secs(36_000)).session_cache_capacity(n.session_cap).session_timeout(Duration::from_millis(n.session_ttl_ms));
    let mut cfg = b.build();
    cfg.executor = Some(Box::new(TokioExecutor));
    let mut d = Discv5::new(n.enr.clone(), ident::pool()[n.ident].key(), cfg).map_err(|e| e.to_string())?;
    d.start().await.map_err(|e| format!("{e:?}"))?;
    let ep = verif::net::take_endpoints().pop().ok_or("no endpoint registered")?;
    n.events = Some(d.event_stream().await.map_err(|e| format!("{e:?}"))?);
    n.d = Some(d);
    n.ep = Some(ep);
    Ok(())
}

enum Ev {
    Deliver { to: usize, src: SocketAddr, bytes: Vec<u8> },
    Api { node: usize, kind: u32, peer: usize },
    Restart { node: usize },
    Partition { a: usize, b: usize, ms: u64 },
    StopFaults,
}
struct Q {
    at: u64,
    seq: u64,
    ev: Ev,
}
impl PartialEq for Q {
    fn eq(&self, o: &Self) -> bool {
        (self.at, self.seq) == (o.at, o.seq)
    }
}
impl Eq for Q {}
impl PartialOrd for Q {
    fn partial_cmp(&self, o: &Self) -> Option<std::cmp::Ordering> {
        Some(self.cmp(o))
    }
}
impl Ord for Q {
    fn cmp(&self, o: &Self) -> std::cmp::Ordering {
        (self.at, self.seq).cmp(&(o.at, o.seq))
    }
}

pub fn run(ctx: &mut Ctx, which: Which) {
    block_on(ctx, |ctx| Box::pin(run_async(ctx, which)));
}

async fn run_async(ctx: &mut Ctx, which: Which) {
    verif::net::install();
    let n = 2 + ctx.tape.choose(4) as usize;
    let mut nodes: Vec<FNode> = vec![];
    let session_knobs = ctx.tape.choose(3) == 0;
    for i in 0..n {
        let identity = 40 + i + 8 * ctx.tape.choose(4) as usize;
        let addr = faddr(i);
        let ip = match addr.ip() {
            IpAddr::V4(v) => v.octets(),
            _ => unreachable!(),
        };
        let enr = ident::record(ident::RecSpec { ident: identity, seq: 1, ip4: Some((ip, addr.port())), ip6: None, pad: 0 });
        let mut node = FNode { ident: identity, id: ident::pool()[identity].id, addr, enr, d: None, ep: None, events: None, timeout_ms: *ctx.tape.pick(&[500u64, 1000]), retries: 1 + ctx.tape.choose(2) as u8, session_cap: 1000, session_ttl_ms: 86_400_000 };
        // tuning knobs: tiny session cache / short session lifetime, so that sessions vanish mid-exchange
        if session_knobs && ctx.tape.choose(2) == 0 {
            node.session_cap = 1 + ctx.tape.choose(2) as usize;
            ctx.fault("tiny_session_cache");
        }
        if session_knobs && ctx.tape.choose(2) == 0 {
            node.session_ttl_ms = *ctx.tape.pick(&[300u64, 1500, 5000]);
            ctx.fault("short_session_lifetime");
        }
        if let Err(e) = start_node(&mut node).await {
            ctx.fail("harness-error", e, &[]);
            return;
        }
        nodes.push(node);
    }
    let fault_free = ctx.tape.choose(4) == 0;
    let mut profile = NetProfile { base_latency_ms: 1, ..Default::default() };
    let mut corrupt_pct = 0u32;
    let mut replay_pct = 0u32;
    if !fault_free {
        if ctx.tape.choose(2) == 1 {
            profile.drop_pct = *ctx.tape.pick(&[2u32, 10, 25]);
        }
        if ctx.tape.choose(2) == 1 {
            profile.dup_pct = *ctx.tape.pick(&[3u32, 15]);
        }
        if ctx.tape.choose(2) == 1 {
            profile.delay_pct = *ctx.tape.pick(&[5u32, 30]);
            profile.max_delay_ms = *ctx.tape.pick(&[30u32, 600, 2500]);
        }
        profile.jitter_ms = *ctx.tape.pick(&[0u32, 3, 30]);
        if ctx.tape.choose(3) == 0 {
            corrupt_pct = *ctx.tape.pick(&[2u32, 10]);
        }
        if ctx.tape.choose(3) == 0 {
            replay_pct = *ctx.tape.pick(&[3u32, 15]);
        }
    }
    let load_ms = 3000 + ctx.tape.choose(5000) as u64;
    let max_to = nodes.iter().map(|x| x.timeout_ms).max().unwrap();
    let bound_ms = 25_000 + 6 * 3 * max_to; // query timeout 20 s + request chains
    ctx.ev(format!("cfg nodes={n} fault_free={fault_free} profile={profile:?} corrupt_pct={corrupt_pct} replay_pct={replay_pct} load_ms={load_ms} bound_ms={bound_ms}"));
    // bootstrap knowledge: a chain / star chosen by the tape
    for i in 0..n {
        for j in 0..n {
            if i != j && (j == 0 || ctx.tape.choose(3) == 0) {
                let enr = nodes[j].enr.clone();
                if let Some(d) = nodes[i].d.as_ref() {
                    let _ = d.add_enr(enr);
                }
            }
        }
    }
    let mut heap: BinaryHeap<Reverse<Q>> = BinaryHeap::new();
    let mut seq = 0u64;
    let mut push = |heap: &mut BinaryHeap<Reverse<Q>>, at: u64, ev: Ev| {
        seq += 1;
        heap.push(Reverse(Q { at, seq, ev }));
    };
    let napi = 2 + ctx.tape.choose(10);
    for _ in 0..napi {
        let node = ctx.tape.choose(n as u32) as usize;
        let peer = (node + 1 + ctx.tape.choose((n - 1) as u32) as usize) % n;
        let at = ctx.tape.choose(load_ms as u32) as u64;
        push(&mut heap, at, Ev::Api { node, kind: ctx.tape.choose(5), peer });
    }
    if !fault_free {
        for _ in 0..ctx.tape.choose(3) {
            let at = ctx.tape.choose(load_ms as u32) as u64;
            if ctx.tape.choose(2) == 0 {
                push(&mut heap, at, Ev::Restart { node: ctx.tape.choose(n as u32) as usize });
            } else {
                let a = ctx.tape.choose(n as u32) as usize;
                push(&mut heap, at, Ev::Partition { a, b: (a + 1) % n, ms: 300 + ctx.tape.choose(3000) as u64 });
            }
        }
    }
    push(&mut heap, load_ms, Ev::StopFaults);

    // API futures in flight: (node, kind, started, handle)
    let mut calls: Vec<(usize, &'static str, u64, JoinHandle<(String, Vec<NodeId>)>, Option<NodeId>)> = vec![];
    // ---- message-level monitors (plaintext read off the wire with the key log)
    // C10: (receiver, responder id) for which a NODES packet was put on the wire
    let mut nodes_sent: BTreeSet<(usize, [u8; 32])> = BTreeSet::new();
    // C14: FINDNODE requests seen on the wire: (requester, responder, request id) -> distances
    let mut fn_reqs: BTreeMap<(usize, usize, Vec<u8>), Vec<u64>> = BTreeMap::new();
    // C20: TALKREQ handed to the application of a node: (node, requester id, request id) -> expected payloads
    let mut talk_expected: BTreeMap<(usize, [u8; 32], Vec<u8>), Vec<Vec<u8>>> = BTreeMap::new();
    let mut talk_sent: BTreeMap<(usize, [u8; 32], Vec<u8>), usize> = BTreeMap::new();
    let mut finished_calls = 0u64;
    let mut partitions: Vec<(usize, usize, u64)> = vec![];
    let mut faults_on = true;
    let mut stop_ms = u64::MAX;
    let mut horizon = u64::MAX / 4;
    let mut keylog: Vec<SessionKeys> = vec![];
    let mut nonce_seen: BTreeMap<(usize, usize, [u8; 12]), Vec<u8>> = BTreeMap::new();
    let mut idnonce_seen: BTreeMap<(usize, [u8; 16]), u64> = BTreeMap::new();
    let mut steps = 0u64;
    let mut sleep: Option<Pin<Box<tokio::time::Sleep>>> = None;
    let mut sleep_for = u64::MAX;
    let mut datagrams = 0u64;
    let mut last_tx: BTreeMap<(usize, SocketAddr), u64> = BTreeMap::new();

    'main: loop {
        steps += 1;
        if ctx.failed() || steps > 200_000 {
            break;
        }
        // finished API calls
        let mut k = 0;
        while k < calls.len() {
            if calls[k].3.is_finished() {
                let (node, kind, t0, h, target) = calls.remove(k);
                let (r, ids) = h.await.unwrap_or_else(|e| (format!("join error: {e}"), vec![]));
                finished_calls += 1;
                ctx.ev(format!("t={} n{node} {kind} (started {t0}) -> {r}", now_ms()));
                if which.c10 {
                    if let Some(target) = target {
                        ctx.count("full_stack_lookup_results_checked");
                        let me = nodes[node].id;
                        let dist = |x: &NodeId| -> [u8; 32] {
                            let mut o = [0u8; 32];
                            for (k, b) in o.iter_mut().enumerate() {
                                *b = x.raw()[k] ^ target.raw()[k];
                            }
                            o
                        };
                        let mut seen: BTreeSet<[u8; 32]> = BTreeSet::new();
                        for (k, id) in ids.iter().enumerate() {
                            if !seen.insert(id.raw()) {
                                ctx.fail("c10.duplicate-result", format!("n{node}: find_node({}) returned {} twice", short(&target), short(id)), &["full-stack"]);
                            } else if *id == me {
                                ctx.fail("c10.local-node-in-result", format!("n{node}: find_node({}) returned the local node", short(&target)), &["full-stack"]);
                            } else if !nodes_sent.contains(&(node, id.raw())) {
                                ctx.fail("c10.result-never-answered", format!("n{node}: find_node({}) returned {} although that node never sent this node a NODES response", short(&target), short(id)), &["full-stack"]);
                            } else if k > 0 && dist(&ids[k - 1]) > dist(id) {
                                ctx.fail("c10.not-sorted", format!("n{node}: find_node({}) result is not in increasing distance to the target at position {k}", short(&target)), &["full-stack"]);
                            }
                        }
                        if ids.len() > 16 {
                            ctx.fail("c10.more-than-k", format!("n{node}: find_node returned {} nodes", ids.len()), &["full-stack"]);
                        }
                    }
                }
            } else {
                k += 1;
            }
        }
        for k in verif::take_session_keys() {
            keylog.push(k);
        }
        let now = now_ms();
        if now >= horizon {
            break;
        }
        let next_at = heap.peek().map(|q| q.0.at).unwrap_or(u64::MAX).min(horizon);
        if sleep.is_none() || sleep_for != next_at {
            sleep = Some(Box::pin(tokio::time::sleep(Duration::from_millis(next_at.saturating_sub(now)))));
            sleep_for = next_at;
        }
        enum W {
            D(usize, verif::net::Outbound),
            E(usize, Event),
            T,
        }
        let w = {
            let sl = sleep.as_mut().unwrap();
            let nodes_ref = &mut nodes;
            std::future::poll_fn(|cx| {
                for (i, nd) in nodes_ref.iter_mut().enumerate() {
                    if let Some(ep) = nd.ep.as_mut() {
                        if let Poll::Ready(Some(d)) = ep.from_node.poll_recv(cx) {
                            return Poll::Ready(W::D(i, d));
                        }
                    }
                }
                // the applications react at once to what their node reports
                for (i, nd) in nodes_ref.iter_mut().enumerate() {
                    if let Some(rx) = nd.events.as_mut() {
                        if let Poll::Ready(Some(e)) = rx.poll_recv(cx) {
                            return Poll::Ready(W::E(i, e));
                        }
                    }
                }
                if sl.as_mut().poll(cx).is_ready() {
                    return Poll::Ready(W::T);
                }
                Poll::Pending
            })
            .await
        };
        match w {
            W::E(i, e) => {
                if let Event::TalkRequest(req) = e {
                    let body = req.body().to_vec();
                    let key = (i, req.node_id().raw(), req.id().0.clone());
                    if which.c20 && ctx.tape.choose(3) == 0 {
                        ctx.count("talk_requests_dropped_by_application");
                        talk_expected.entry(key).or_default().push(vec![]);
                        drop(req);
                    } else {
                        ctx.count("talk_requests_answered_by_application");
                        talk_expected.entry(key).or_default().push(body.clone());
                        let _ = req.respond(body);
                    }
                }
            }
            W::D(from, (dst, dst_id, bytes)) => {
                datagrams += 1;
                last_tx.insert((from, dst), now_ms());
                // wire monitors
                let dec = toolkit::decode_packet(&dst_id, &bytes).ok();
                if bytes.len() > 1280 {
                    ctx.fail("wire.oversize-datagram", format!("n{from} emitted a {}-byte datagram", bytes.len()), &[]);
                }
                let Some(d) = dec else {
                    ctx.fail("wire.undecodable-datagram", format!("n{from} emitted a datagram that does not decode with the destination id"), &[]);
                    continue;
                };
                let what = match &d.kind {
                    PacketKind::Message { .. } => "MSG",
                    PacketKind::WhoAreYou { .. } => "WHOAREYOU",
                    PacketKind::Handshake { .. } => "HANDSHAKE",
                };
                for k in verif::take_session_keys() {
                    keylog.push(k);
                }
                // plaintext of the sender's own traffic, attributed to the session key that produced it
                let mut plain: Option<(usize, Vec<u8>)> = None;
                if !matches!(d.kind, PacketKind::WhoAreYou { .. }) {
                    for (ki, k) in keylog.iter().enumerate() {
                        if k.local == nodes[from].id {
                            if let Some(pt) = toolkit::decrypt(&k.encryption_key, d.message_nonce, &d.message, &d.authenticated_data) {
                                plain = Some((ki, pt));
                                break;
                            }
                        }
                    }
                }
                if which.c19 {
                    match &d.kind {
                        PacketKind::WhoAreYou { id_nonce, .. } => {
                            if idnonce_seen.insert((from, *id_nonce), now).is_some() {
                                ctx.fail("c19.id-nonce-repeated", format!("n{from} reused an id-nonce"), &[]);
                            }
                        }
                        _ => {
                            if let Some((ki, _)) = &plain {
                                ctx.count("encrypted_datagrams_attributed_to_key");
                                if let Some(prev) = nonce_seen.insert((from, *ki, d.message_nonce), bytes.clone()) {
                                    if prev != bytes {
                                        ctx.fail("c19.nonce-reused", format!("n{from} encrypted two different datagrams under one session key with nonce {}", hex::encode(d.message_nonce)), &[]);
                                    }
                                }
                            }
                        }
                    }
                }
                let to_idx = nodes.iter().position(|x| x.addr == dst);
                if let (Some((_, pt)), Some(to)) = (&plain, to_idx) {
                    match Message::decode(pt) {
                        Ok(Message::Request(rq)) => {
                            if let RequestBody::FindNode { distances } = &rq.body {
                                fn_reqs.insert((from, to, rq.id.0.clone()), distances.clone());
                            }
                        }
                        Ok(Message::Response(rs)) => match &rs.body {
                            ResponseBody::Nodes { total, nodes: recs } => {
                                nodes_sent.insert((to, nodes[from].id.raw()));
                                if which.c14 {
                                    ctx.count("full_stack_nodes_packets_checked");
                                    if *total == 0 {
                                        ctx.fail("c14.total-zero", format!("n{from} sent a NODES packet with total 0"), &["full-stack"]);
                                    }
                                    let table: BTreeSet<[u8; 32]> = nodes[from].d.as_ref().map(|d| d.table_entries_id().into_iter().map(|x| x.raw()).collect()).unwrap_or_default();
                                    if let Some(dists) = fn_reqs.get(&(to, from, rs.id.0.clone())) {
                                        for r in recs {
                                            let rid = r.node_id();
                                            let dist = log2_distance(&nodes[from].id, &rid);
                                            if rid == nodes[to].id {
                                                ctx.fail("c14.requester-record-returned", format!("n{from} returned the requester's own record to n{to}"), &["full-stack"]);
                                            } else if !dists.contains(&dist) {
                                                ctx.fail("c14.record-at-wrong-distance", format!("n{from} answered FINDNODE{dists:?} of n{to} with a record at distance {dist}"), &["full-stack"]);
                                            } else if rid != nodes[from].id && nodes[from].d.is_some() && !table.contains(&rid.raw()) {
                                                ctx.fail("c14.record-not-in-table", format!("n{from} answered FINDNODE{dists:?} of n{to} with {} which is not in its routing table", short(&rid)), &["full-stack"]);
                                            }
                                        }
                                    }
                                }
                            }
                            ResponseBody::Pong { enr_seq, ip, port } => {
                                if which.c14 {
                                    ctx.count("full_stack_pongs_checked");
                                    let seq = nodes[from].d.as_ref().map(|d| d.local_enr().seq());
                                    if SocketAddr::new(*ip, port.get()) != dst {
                                        ctx.fail("c14.pong-wrong-address", format!("n{from} sent n{to} a PONG reporting {ip}:{port} but the PING came from {dst}"), &["full-stack"]);
                                    } else if seq.map(|s| s != *enr_seq).unwrap_or(false) {
                                        ctx.fail("c14.pong-wrong-seq", format!("n{from} sent a PONG with enr-seq {enr_seq}, its record has {seq:?}"), &["full-stack"]);
                                    }
                                }
                            }
                            ResponseBody::Talk { response } => {
                                if which.c20 {
                                    let key = (from, nodes[to].id.raw(), rs.id.0.clone());
                                    let c = talk_sent.entry(key.clone()).or_insert(0);
                                    *c += 1;
                                    let exp = talk_expected.get(&key).cloned().unwrap_or_default();
                                    if *c > exp.len() {
                                        ctx.fail("c20.not-exactly-one-response", format!("n{from} sent TALKRESP #{c} for request {} of n{to}, but its application was handed that request {} time(s)", hex::encode(&rs.id.0), exp.len()), &["full-stack"]);
                                    } else if !exp.contains(response) {
                                        ctx.fail("c20.wrong-payload", format!("n{from} sent a TALKRESP with a payload the application did not produce (request {})", hex::encode(&rs.id.0)), &["full-stack"]);
                                    }
                                }
                            }
                        },
                        Err(_) => {}
                    }
                }
                // routing with faults
                let Some(to) = nodes.iter().position(|x| x.addr == dst) else { continue };
                let src = nodes[from].addr;
                let parted = partitions.iter().any(|(a, b, until)| now < *until && ((*a == from && *b == to) || (*a == to && *b == from)));
                if parted {
                    ctx.fault("partition_drop");
                    ctx.ev(format!("t={now} n{from}->n{to} {what} PARTITIONED"));
                    continue;
                }
                if faults_on && profile.drop_pct > 0 && ctx.tape.choose(100) >= 100 - profile.drop_pct {
                    ctx.fault("drop");
                    ctx.ev(format!("t={now} n{from}->n{to} {what} DROPPED"));
                    continue;
                }
                let mut copies = 1;
                if faults_on && profile.dup_pct > 0 && ctx.tape.choose(100) >= 100 - profile.dup_pct {
                    copies = 2;
                    ctx.fault("duplicate");
                }
                // a stale copy of this datagram arrives (again) much later, from the same source
                if faults_on && replay_pct > 0 && ctx.tape.choose(100) < replay_pct {
                    ctx.fault("late_replay");
                    let at = now + 50 + ctx.tape.choose(6000) as u64;
                    if at < load_ms {
                        push(&mut heap, at, Ev::Deliver { to, src, bytes: bytes.clone() });
                    }
                }
                let mut bytes = bytes;
                if faults_on && corrupt_pct > 0 && ctx.tape.choose(100) < corrupt_pct {
                    ctx.fault("bit_flip");
                    let pos = ctx.tape.choose(bytes.len() as u32) as usize;
                    bytes[pos] ^= 1 << ctx.tape.choose(8);
                }
                for _ in 0..copies {
                    let mut lat = profile.base_latency_ms as u64 + if profile.jitter_ms > 0 { ctx.tape.choose(profile.jitter_ms + 1) as u64 } else { 0 };
                    if faults_on && profile.delay_pct > 0 && ctx.tape.choose(100) >= 100 - profile.delay_pct {
                        lat += 1 + ctx.tape.choose(profile.max_delay_ms.max(1)) as u64;
                        ctx.fault("delay_reorder");
                    }
                    push(&mut heap, now + lat, Ev::Deliver { to, src, bytes: bytes.clone() });
                }
                ctx.ev(format!("t={now} n{from}->n{to} {what}{}", if copies > 1 { " DUP" } else { "" }));
            }
            W::T => {
                sleep = None;
                let now = now_ms();
                while heap.peek().map(|q| q.0.at <= now).unwrap_or(false) {
                    let q = heap.pop().unwrap().0;
                    match q.ev {
                        Ev::Deliver { to, src, bytes } => {
                            if let Some(ep) = nodes[to].ep.as_ref() {
                                let _ = ep.to_node.send((src, bytes));
                            }
                        }
                        Ev::Api { node, kind, peer } => {
                            let Some(d) = nodes[node].d.as_ref() else { continue };
                            let peer_enr = nodes[peer].enr.clone();
                            let name: &'static str;
                            let mut lookup_target: Option<NodeId> = None;
                            let h: JoinHandle<(String, Vec<NodeId>)> = match kind {
                                0 | 1 => {
                                    name = "find_node";
                                    let mut raw = nodes[peer].id.raw();
                                    raw[31] ^= ctx.tape.choose(4) as u8; // the peer's id itself or an adjacent id
                                    let target = if kind == 0 { NodeId::new(&raw) } else { NodeId::new(&crate::worlds::fworld::rand_id(ctx)) };
                                    let f = d.find_node(target);
                                    lookup_target = Some(target);
                                    tokio::spawn(async move {
                                        match f.await {
                                            Ok(v) => (format!("ok {} nodes", v.len()), v.iter().map(|e| e.node_id()).collect()),
                                            Err(e) => (format!("err {e:?}"), vec![]),
                                        }
                                    })
                                }
                                2 => {
                                    name = "send_ping";
                                    let f = d.send_ping(peer_enr);
                                    tokio::spawn(async move {
                                        match f.await {
                                            Ok(p) => (format!("pong seq {}", p.enr_seq), vec![]),
                                            Err(e) => (format!("err {e:?}"), vec![]),
                                        }
                                    })
                                }
                                3 => {
                                    name = "talk_req";
                                    let contact = discv5::verif::NodeContact::try_from_enr(peer_enr, discv5::IpMode::default()).expect("contact");
                                    let f = d.talk_req(contact, b"p".to_vec(), vec![1, 2, 3]);
                                    tokio::spawn(async move {
                                        match f.await {
                                            Ok(v) => (format!("talk {} bytes", v.len()), vec![]),
                                            Err(e) => (format!("err {e:?}"), vec![]),
                                        }
                                    })
                                }
                                _ => {
                                    name = "find_node_designated_peer";
                                    let f = d.find_node_designated_peer(peer_enr, vec![0, 256, 255]);
                                    tokio::spawn(async move {
                                        match f.await {
                                            Ok(v) => (format!("nodes {}", v.len()), vec![]),
                                            Err(e) => (format!("err {e:?}"), vec![]),
                                        }
                                    })
                                }
                            };
                            ctx.ev(format!("t={now} n{node} API {name} -> n{peer}"));
                            calls.push((node, name, now, h, lookup_target));
                        }
                        Ev::Restart { node } => {
                            if now < stop_ms {
                                ctx.fault("node_restart");
                                ctx.ev(format!("t={now} RESTART n{node}"));
                                // calls of the restarted node die with it
                                let mut k = 0;
                                while k < calls.len() {
                                    if calls[k].0 == node {
                                        let (_, _, _, h, _) = calls.remove(k);
                                        h.abort();
                                    } else {
                                        k += 1;
                                    }
                                }
                                talk_expected.retain(|k, _| k.0 != node);
                                talk_sent.retain(|k, _| k.0 != node);
                                if let Some(mut d) = nodes[node].d.take() {
                                    d.shutdown();
                                }
                                nodes[node].ep = None;
                                nodes[node].events = None;
                                tokio::task::yield_now().await;
                                if let Err(e) = start_node(&mut nodes[node]).await {
                                    ctx.fail("harness-error", e, &[]);
                                    break 'main;
                                }
                            }
                        }
                        Ev::Partition { a, b, ms } => {
                            if now < stop_ms {
                                ctx.fault("partition");
                                partitions.push((a, b, (now + ms).min(load_ms)));
                            }
                        }
                        Ev::StopFaults => {
                            faults_on = false;
                            stop_ms = now;
                            partitions.clear();
                            horizon = now + bound_ms;
                            ctx.ev(format!("t={now} FAULTS STOP"));
                        }
                    }
                }
            }
        }
    }
    if ctx.failed() {
        for nd in nodes.iter_mut() {
            if let Some(mut d) = nd.d.take() {
                d.shutdown();
            }
        }
        verif::net::uninstall();
        return;
    }
    // ---- end-of-run oracles
    let t_end = now_ms();
    if which.c09 {
        for (node, kind, t0, h, _) in &calls {
            if !h.is_finished() {
                ctx.fail(
                    "c09.no-termination",
                    format!("n{node}: {kind} started at {t0}ms has not returned at {t_end}ms, {}ms after the last fault (full stack, all nodes honest)", t_end.saturating_sub(stop_ms)),
                    &["full-stack"],
                );
                break;
            }
        }
    }
    if which.c11 && !ctx.failed() {
        let bans = verif::permit_ban_snapshot();
        if !bans.ban_nodes.is_empty() || !bans.ban_ips.is_empty() {
            let who: Vec<String> = bans.ban_nodes.keys().map(short).collect();
            ctx.fail("c11.honest-responder-banned", format!("all nodes are honest, yet the ban list holds nodes {who:?} and {} addresses", bans.ban_ips.len()), &["full-stack"]);
        }
    }
    if which.c13 && !ctx.failed() && calls.iter().all(|c| c.3.is_finished()) {
        for (i, nd) in nodes.iter().enumerate() {
            if let Some(ep) = nd.ep.as_ref() {
                let mut ex: BTreeMap<SocketAddr, usize> = ep.expected_responses.read().iter().map(|(k, v)| (*k, *v)).collect();
                // premise of the clause, per address: nothing was (re)transmitted to it for a full timeout period
                let before = ex.len();
                ex.retain(|a, _| last_tx.get(&(i, *a)).map(|t| *t + nd.timeout_ms + 2 < t_end).unwrap_or(true));
                if ex.len() != before {
                    ctx.count("horizon_address_not_quiescent");
                }
                if !ex.is_empty() {
                    ctx.fail("c13.exemption-leak", format!("n{i}: exemptions {ex:?} remain at quiescence (full stack, all API calls returned, {}ms after the last fault)", t_end.saturating_sub(stop_ms)), &["full-stack"]);
                    break;
                }
            }
        }
    }
    // a response handed to a handler that has meanwhile lost the session with the requester cannot be
    // sent (the handler drops it): "exactly one" is demanded at the wire only in runs where that did not happen
    let dropped_for_lack_of_session = verif::probe("handler.response_dropped_no_session");
    if dropped_for_lack_of_session > 0 {
        ctx.count("runs_with_response_dropped_for_lack_of_session");
    }
    if which.c20 && !ctx.failed() && dropped_for_lack_of_session == 0 {
        for (key, exp) in &talk_expected {
            ctx.count("full_stack_talk_requests_checked");
            let sent = talk_sent.get(key).copied().unwrap_or(0);
            if sent != exp.len() {
                ctx.fail("c20.not-exactly-one-response", format!("n{}: the application was handed TALKREQ {} of {} {} time(s) but {sent} TALKRESP were sent (node not restarted since)", key.0, hex::encode(&key.2), hex::encode(&key.1[..3]), exp.len()), &["full-stack"]);
                break;
            }
        }
    }
    ctx.sample = Some(serde_json::json!({"nodes": n, "datagrams": datagrams, "api_calls_finished": finished_calls, "api_calls_open": calls.len()}));
    if datagrams > 0 {
        ctx.count("full_stack_runs_with_traffic");
    }
    for c in calls {
        c.3.abort();
    }
    for nd in nodes.iter_mut() {
        if let Some(mut d) = nd.d.take() {
            d.shutdown();
        }
    }
    verif::net::uninstall();
}

/// log2 of the XOR distance (0 for equal ids), computed independently of the crate's Key type.
fn log2_distance(a: &NodeId, b: &NodeId) -> u64 {
    for (i, (x, y)) in a.raw().iter().zip(b.raw().iter()).enumerate() {
        let d = x ^ y;
        if d != 0 {
            return (256 - 8 * i as u64) - d.leading_zeros() as u64;
        }
    }
    0
}

pub fn rand_id(ctx: &mut Ctx) -> [u8; 32] {
    let mut s = ctx.tape.choose(1 << 30) as u64;
    let mut t = [0u8; 32];
    for c in t.chunks_mut(8) {
        c.copy_from_slice(&crate::prng::splitmix(&mut s).to_le_bytes());
    }
    t
}
