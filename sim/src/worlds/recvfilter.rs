//! W-R: the real inbound `Filter` (rate limiter stages, ban/permit lists, nodes-per-IP rule) driven
//! with generated arrival sequences under explicit simulated time. C18.

use crate::{core::Ctx, interpose};
use discv5::{enr::NodeId, verif, PermitBanList, RateLimiterBuilder};
use std::{
    collections::BTreeMap,
    net::{IpAddr, Ipv4Addr, SocketAddr},
    time::{Duration, Instant},
};

#[derive(Clone, Copy)]
struct Quota {
    burst: u64,
    period_ms: u64,
}
impl Quota {
    fn tau_ns(&self) -> u128 {
        self.period_ms as u128 * 1_000_000
    }
    fn t_ns(&self) -> u64 {
        (self.period_ms * 1_000_000) / self.burst
    }
}

#[derive(Clone)]
enum Step {
    Arrive { ip: u8, node: u8 },
    Advance(u64),
    Prune,
    Edit(EditOp),
}
#[derive(Clone, Copy, Debug)]
enum EditOp {
    BanIp(u8, bool),
    PermitIp(u8),
    UnpermitIp(u8),
    BanNode(u8, bool),
    PermitNode(u8),
    UnbanIp(u8),
    UnbanNode(u8),
}

#[derive(Clone, Debug, PartialEq)]
struct Decision {
    t_ns: u64,
    ip: u8,
    node: u8,
    ip_stage: bool,
    node_stage: Option<bool>,
}

/// Sender addresses of all three kinds a dual-stack socket reports: IPv4, IPv4-mapped IPv6, IPv6.
fn ip_of(i: u8) -> IpAddr {
    let v4 = Ipv4Addr::new(192, 0, 2, 10 + i);
    match i % 3 {
        1 => IpAddr::V6(v4.to_ipv6_mapped()),
        2 => IpAddr::V6(std::net::Ipv6Addr::new(0x2001, 0xdb8, 0, 0, 0, 0, 0, 10 + i as u16)),
        _ => IpAddr::V4(v4),
    }
}
fn node_of(i: u8) -> NodeId {
    let mut b = [0x11u8; 32];
    b[0] = i;
    b[31] = i.wrapping_mul(7);
    NodeId::new(&b)
}

struct Cfg {
    enabled: bool,
    total: Quota,
    ipq: Option<Quota>,
    nodeq: Option<Quota>,
    max_nodes_per_ip: Option<usize>,
    max_bans_per_ip: Option<usize>,
    ban_duration_ms: Option<u64>,
    /// kinds of the arriving datagrams: 0 ordinary messages, 1 handshakes, 2 both (by position in the schedule)
    kinds: u8,
}

fn quota(ctx: &mut Ctx) -> Quota {
    Quota { burst: *ctx.tape.pick(&[1u64, 2, 4, 5, 8, 10]), period_ms: *ctx.tape.pick(&[100u64, 500, 1000, 5000]) }
}

fn build(cfg: &Cfg) -> verif::FilterFacade {
    let mut b = RateLimiterBuilder::new().total_n_every(cfg.total.burst, Duration::from_millis(cfg.total.period_ms));
    if let Some(q) = cfg.ipq {
        b = b.ip_n_every(q.burst, Duration::from_millis(q.period_ms));
    }
    if let Some(q) = cfg.nodeq {
        b = b.node_n_every(q.burst, Duration::from_millis(q.period_ms));
    }
    let rl = b.build().expect("rate limiter");
    verif::FilterFacade::new(cfg.enabled, Some(rl), cfg.max_nodes_per_ip, cfg.max_bans_per_ip, cfg.ban_duration_ms.map(Duration::from_millis))
}

/// Executes a schedule against a fresh filter; returns decisions and runs the per-datagram oracles
/// (`check` = false for the metamorphic twin).
fn execute(ctx: &mut Ctx, cfg: &Cfg, steps: &[Step], with_prune: bool, check: bool) -> Vec<Decision> {
    interpose::set_clock_manual(0);
    verif::reset_globals();
    let mut f = build(cfg);
    let mut out: Vec<Decision> = vec![];
    // pass times per key for the window bound
    let mut ip_pass: BTreeMap<u8, Vec<u64>> = BTreeMap::new();
    let mut node_pass: BTreeMap<u8, Vec<u64>> = BTreeMap::new();
    let mut total_pass: Vec<u64> = vec![];
    let would_exceed = |times: &Vec<u64>, now: u64, q: &Quota| -> bool {
        // accepting one more at `now`: exists i with (n+1) > burst + delta*burst/tau
        let n = times.len();
        for (i, ti) in times.iter().enumerate() {
            let cnt = (n - i + 1) as u128;
            let delta = (now - ti) as u128;
            if cnt * q.tau_ns() > q.burst as u128 * q.tau_ns() + delta * q.burst as u128 {
                return true;
            }
        }
        false
    };
    let mut passes_expired = false;
    for (step_idx, st) in steps.iter().enumerate() {
        if ctx.failed() {
            break;
        }
        let now = interpose::manual_now_ns();
        match st {
            Step::Advance(ms) => {
                interpose::advance_manual(ms * 1_000_000);
                if check {
                    ctx.ev(format!("t={}ms advance {ms}ms", now / 1_000_000));
                }
            }
            Step::Prune => {
                if with_prune {
                    f.prune_limiter();
                    if check {
                        ctx.ev(format!("t={}ms prune", now / 1_000_000));
                        ctx.count("prune_ticks");
                    }
                }
            }
            Step::Edit(op) => {
                let mut l = verif::permit_ban_snapshot();
                let exp = |perm: bool| if perm { None } else { Some(Instant::now() + Duration::from_secs(3600)) };
                match *op {
                    EditOp::BanIp(i, perm) => {
                        l.ban_ips.insert(ip_of(i), exp(perm));
                    }
                    EditOp::PermitIp(i) => {
                        l.permit_ips.insert(ip_of(i));
                    }
                    EditOp::UnpermitIp(i) => {
                        l.permit_ips.remove(&ip_of(i));
                    }
                    EditOp::BanNode(i, perm) => {
                        l.ban_nodes.insert(node_of(i), exp(perm));
                    }
                    EditOp::PermitNode(i) => {
                        l.permit_nodes.insert(node_of(i));
                    }
                    EditOp::UnbanIp(i) => {
                        l.ban_ips.remove(&ip_of(i));
                    }
                    EditOp::UnbanNode(i) => {
                        l.ban_nodes.remove(&node_of(i));
                    }
                }
                verif::permit_ban_set(l);
                if check {
                    ctx.ev(format!("t={}ms list-edit {op:?}", now / 1_000_000));
                    ctx.fault("ban_permit_list_edit");
                }
            }
            Step::Arrive { ip, node } => {
                let before: PermitBanList = verif::permit_ban_snapshot();
                let addr = SocketAddr::new(ip_of(*ip), 9000 + *ip as u16);
                let nid = node_of(*node);
                let ip_permitted = before.permit_ips.contains(&addr.ip());
                // a ban binds until its expiry (the periodic sweep may remove it later, or an
                // implementation may stop honouring it at once: both satisfy "at least the duration")
                let live = |e: &Option<Instant>| e.map(|t| t > Instant::now()).unwrap_or(true);
                let ip_banned = before.ban_ips.get(&addr.ip()).map(live).unwrap_or(false);
                let node_permitted = before.permit_nodes.contains(&nid);
                let node_banned = before.ban_nodes.get(&nid).map(live).unwrap_or(false);
                // an expired ban stays on the list until the periodic sweep (not part of the filter) removes it; the
                // filter may still honour such an entry ("at least the configured duration"): a refusal of a listed
                // sender is attributed to the entry, not to the quotas
                let ip_listed = before.ban_ips.contains_key(&addr.ip());
                let node_listed = before.ban_nodes.contains_key(&nid);
                let ip_stage = f.initial_pass(&addr);
                // message and handshake datagrams both carry a node id and take the same node stage
                let handshake = match cfg.kinds {
                    0 => false,
                    1 => true,
                    _ => (step_idx as u64).wrapping_mul(0x9E37_79B9_7F4A_7C15) >> 63 == 1,
                };
                let node_stage = if ip_stage { Some(if handshake { f.final_pass_handshake(nid, addr) } else { f.final_pass(nid, addr) }) } else { None };
                if check && handshake {
                    ctx.count("handshake_kind_arrivals");
                }
                let after = verif::permit_ban_snapshot();
                // (an implementation that lets a listed sender pass once its ban has expired does not honour expired
                // entries: from then on its refusals are quota decisions and owe a fresh ban)
                let ip_stale_refusal = !passes_expired && !ip_permitted && !ip_banned && ip_listed && !ip_stage;
                let node_stale_refusal = !passes_expired && !node_permitted && !node_banned && node_listed && node_stage == Some(false);
                if (ip_listed && !ip_banned && !ip_permitted && ip_stage) || (node_listed && !node_banned && !node_permitted && node_stage == Some(true)) {
                    passes_expired = true;
                }
                if check && (ip_stale_refusal || node_stale_refusal) {
                    ctx.count("refusals_on_expired_unswept_ban");
                }
                let d = Decision { t_ns: now, ip: *ip, node: *node, ip_stage, node_stage };
                if check {
                    ctx.ev(format!("t={}ms arrive {} ip{} node{} -> ip_stage={} node_stage={:?}", now / 1_000_000, if handshake { "handshake" } else { "message" }, ip, node, ip_stage, node_stage));
                    // (d) ban / permit precedence
                    if ip_permitted && !ip_stage {
                        ctx.fail("c18.permitted-ip-dropped", format!("datagram from permitted ip{ip} dropped at the IP stage"), &[]);
                    } else if !ip_permitted && ip_banned && ip_stage {
                        ctx.fail("c18.banned-ip-passed", format!("datagram from banned ip{ip} passed the IP stage"), &[]);
                    }
                    if let Some(ns) = node_stage {
                        if node_permitted && !ns {
                            ctx.fail("c18.permitted-node-dropped", format!("datagram from permitted node{node} dropped at the node stage"), &[]);
                        } else if !node_permitted && node_banned && ns {
                            ctx.fail("c18.banned-node-passed", format!("datagram from banned node{node} passed the node stage"), &[]);
                        }
                    }
                    if ip_banned && !ip_permitted {
                        ctx.count("arrivals_from_banned_ip");
                    }
                    if ip_permitted || node_permitted {
                        ctx.count("arrivals_with_permit");
                    }
                    // (e) new bans carry at least the configured duration; bans never vanish here
                    for (k, exp) in after.ban_ips.iter() {
                        if !before.ban_ips.contains_key(k) {
                            ctx.count("ip_bans_by_filter");
                            check_expiry(ctx, cfg, now, *exp, "ip");
                        }
                    }
                    for (k, exp) in after.ban_nodes.iter() {
                        if !before.ban_nodes.contains_key(k) {
                            ctx.count("node_bans_by_filter");
                            check_expiry(ctx, cfg, now, *exp, "node");
                        }
                    }
                    if before.ban_ips.iter().any(|(k, e)| live(e) && !after.ban_ips.contains_key(k)) || before.ban_nodes.iter().any(|(k, e)| live(e) && !after.ban_nodes.contains_key(k)) {
                        ctx.fail("c18.ban-vanished", "a ban entry disappeared while processing a datagram", &[]);
                    }
                    // (a) window bound per stage/key + (e) exceeding a per-IP / per-node quota bans
                    if cfg.enabled && !ip_permitted && !ip_banned && !ip_stale_refusal {
                        if let Some(q) = cfg.ipq {
                            let times = ip_pass.entry(*ip).or_default();
                            let exceed = would_exceed(times, now, &q);
                            if exceed {
                                ctx.count("ip_quota_exceeded");
                                if ip_stage {
                                    ctx.fail("c18.ip-window-exceeded", format!("ip{ip}: datagram at {}ms let through beyond burst {} + rate*window (period {}ms)", now / 1_000_000, q.burst, q.period_ms), &[]);
                                } else {
                                    match after.ban_ips.get(&addr.ip()) {
                                        None => ctx.fail("c18.ip-quota-no-ban", format!("ip{ip} exceeded its per-IP quota at {}ms but was not banned", now / 1_000_000), &[]),
                                        Some(exp) => check_expiry(ctx, cfg, now, *exp, "ip (after a quota excess)"),
                                    }
                                }
                            }
                        }
                        if would_exceed(&total_pass, now, &cfg.total) && ip_stage {
                            ctx.fail("c18.total-window-exceeded", format!("total: datagram at {}ms let through beyond burst {} + rate*window (period {}ms)", now / 1_000_000, cfg.total.burst, cfg.total.period_ms), &[]);
                        }
                        if ip_stage {
                            ip_pass.entry(*ip).or_default().push(now);
                            total_pass.push(now);
                        }
                    }
                    if cfg.enabled && ip_stage && !node_permitted && !node_banned && !node_stale_refusal {
                        if let Some(q) = cfg.nodeq {
                            let times = node_pass.entry(*node).or_default();
                            if would_exceed(times, now, &q) {
                                ctx.count("node_quota_exceeded");
                                if node_stage == Some(true) {
                                    ctx.fail("c18.node-window-exceeded", format!("node{node}: datagram at {}ms let through beyond burst {} + rate*window (period {}ms)", now / 1_000_000, q.burst, q.period_ms), &[]);
                                } else {
                                    match after.ban_nodes.get(&nid) {
                                        None => ctx.fail("c18.node-quota-no-ban", format!("node{node} exceeded its per-node quota at {}ms but was not banned", now / 1_000_000), &[]),
                                        Some(exp) => check_expiry(ctx, cfg, now, *exp, "node (after a quota excess)"),
                                    }
                                }
                            }
                        }
                        if node_stage == Some(true) {
                            node_pass.entry(*node).or_default().push(now);
                        }
                    }
                    if !cfg.enabled && !ip_banned && !node_banned && !ip_stale_refusal && !node_stale_refusal && node_stage != Some(true) {
                        ctx.fail("c18.disabled-filter-dropped", "filter disabled, nobody banned, datagram dropped", &[]);
                    }
                }
                out.push(d);
            }
        }
    }
    out
}

fn check_expiry(ctx: &mut Ctx, cfg: &Cfg, now_ns: u64, exp: Option<Instant>, what: &str) {
    match (cfg.ban_duration_ms, exp) {
        (None, None) => {}
        (None, Some(_)) => ctx.fail("c18.ban-too-short", format!("{what} ban has an expiry although bans are configured permanent"), &[]),
        (Some(_), None) => {} // permanent is at least as long
        (Some(d), Some(t)) => {
            let min = Instant::now() + Duration::from_millis(d);
            let _ = now_ns;
            if t < min {
                ctx.fail("c18.ban-too-short", format!("{what} ban expires {:?} before now + ban_duration", min - t), &[]);
            }
        }
    }
}

pub fn run(ctx: &mut Ctx) {
    let conforming = ctx.scenario == "filter-conforming";
    let n_ips = 1 + ctx.tape.choose(6) as u8;
    let n_nodes = 1 + ctx.tape.choose(8) as u8;
    let cfg = Cfg {
        enabled: conforming || ctx.tape.choose(8) != 0,
        total: quota(ctx),
        ipq: if ctx.tape.choose(5) == 0 { None } else { Some(quota(ctx)) },
        nodeq: if ctx.tape.choose(5) == 0 { None } else { Some(quota(ctx)) },
        max_nodes_per_ip: if conforming || ctx.tape.choose(2) == 0 { None } else { Some(2 + ctx.tape.choose(8) as usize) },
        max_bans_per_ip: if ctx.tape.choose(2) == 0 { None } else { Some(1 + ctx.tape.choose(4) as usize) },
        ban_duration_ms: *ctx.tape.pick(&[None, Some(10_000u64), Some(3_600_000), Some(100), Some(1_000)]),
        kinds: ctx.tape.choose(4).min(2) as u8,
    };
    ctx.ev(format!(
        "cfg {} enabled={} total={}/{}ms ip={:?} node={:?} max_nodes_per_ip={:?} max_bans_per_ip={:?} ban_duration_ms={:?} kinds={} ips={n_ips} nodes={n_nodes}",
        if conforming { "conforming" } else { "adversarial" },
        cfg.enabled,
        cfg.total.burst,
        cfg.total.period_ms,
        cfg.ipq.map(|q| (q.burst, q.period_ms)),
        cfg.nodeq.map(|q| (q.burst, q.period_ms)),
        cfg.max_nodes_per_ip,
        cfg.max_bans_per_ip,
        cfg.ban_duration_ms,
        ["message", "handshake", "mixed"][cfg.kinds as usize]
    ));
    // ---- build the schedule
    let n = 20 + ctx.tape.choose(if ctx.tier == crate::core::Tier::Quick { 150 } else { 400 });
    let mut steps: Vec<Step> = vec![];
    if conforming {
        // pacing state per key: (count so far, time of last)
        let mut now: u64 = 0;
        let mut ipc: BTreeMap<u8, (u64, u64)> = BTreeMap::new();
        let mut ndc: BTreeMap<u8, (u64, u64)> = BTreeMap::new();
        let mut tot: (u64, u64) = (0, 0);
        let ok = |c: Option<&(u64, u64)>, q: Option<Quota>, now: u64| -> bool {
            match (c, q) {
                (_, None) => true,
                (None, _) => true,
                (Some((cnt, last)), Some(q)) => *cnt < q.burst || now >= *last + q.t_ns(),
            }
        };
        for _ in 0..n {
            match ctx.tape.choose(8) {
                0 => steps.push(Step::Prune),
                1 | 2 => {
                    let ms = *ctx.tape.pick(&[1u64, 10, 50, 100, 500, 1000, 5000, 31_000]);
                    steps.push(Step::Advance(ms));
                    now += ms * 1_000_000;
                }
                _ => {
                    // find an eligible (ip, node)
                    let ip = ctx.tape.choose(n_ips as u32) as u8;
                    let node = ctx.tape.choose(n_nodes as u32) as u8;
                    if ok(Some(&tot), Some(cfg.total), now) && ok(ipc.get(&ip), cfg.ipq, now) && ok(ndc.get(&node), cfg.nodeq, now) {
                        steps.push(Step::Arrive { ip, node });
                        tot = (tot.0 + 1, now);
                        let e = ipc.entry(ip).or_insert((0, 0));
                        *e = (e.0 + 1, now);
                        let e = ndc.entry(node).or_insert((0, 0));
                        *e = (e.0 + 1, now);
                    } else {
                        // wait exactly until the slowest applicable pacing interval has elapsed
                        let mut wait = cfg.total.t_ns();
                        if let Some(q) = cfg.ipq {
                            wait = wait.max(q.t_ns());
                        }
                        if let Some(q) = cfg.nodeq {
                            wait = wait.max(q.t_ns());
                        }
                        let ms = wait.div_ceil(1_000_000);
                        steps.push(Step::Advance(ms));
                        now += ms * 1_000_000;
                    }
                }
            }
        }
    } else {
        for _ in 0..n {
            match ctx.tape.choose(16) {
                0 => steps.push(Step::Prune),
                1 | 2 | 3 => steps.push(Step::Advance(*ctx.tape.pick(&[0u64, 1, 10, 50, 100, 250, 1000, 5000, 31_000]))),
                4 => {
                    let i = ctx.tape.choose(n_ips as u32) as u8;
                    let nd = ctx.tape.choose(n_nodes as u32) as u8;
                    let perm = ctx.tape.choose(2) == 0;
                    steps.push(Step::Edit(match ctx.tape.choose(8) {
                        5 | 6 => EditOp::UnbanIp(i),
                        7 => EditOp::UnbanNode(nd),
                        0 => EditOp::BanIp(i, perm),
                        1 => EditOp::PermitIp(i),
                        2 => EditOp::UnpermitIp(i),
                        3 => EditOp::BanNode(nd, perm),
                        _ => EditOp::PermitNode(nd),
                    }));
                }
                5 | 6 => {
                    // burst from one source
                    let ip = ctx.tape.choose(n_ips as u32) as u8;
                    let node = ctx.tape.choose(n_nodes as u32) as u8;
                    for _ in 0..(2 + ctx.tape.choose(10)) {
                        steps.push(Step::Arrive { ip, node });
                    }
                }
                _ => steps.push(Step::Arrive { ip: ctx.tape.choose(n_ips as u32) as u8, node: ctx.tape.choose(n_nodes as u32) as u8 }),
            }
        }
    }
    // ---- execute with prune ticks (oracles on) and without (metamorphic twin)
    let d1 = execute(ctx, &cfg, &steps, true, true);
    if ctx.failed() {
        return;
    }
    let passed = d1.iter().filter(|d| d.node_stage == Some(true)).count();
    ctx.ev(format!("arrivals={} passed={passed}", d1.len()));
    if conforming {
        if let Some(d) = d1.iter().find(|d| d.node_stage != Some(true)) {
            ctx.fail(
                "c18.conforming-refused",
                format!("conforming datagram at {}ms from ip{} node{} was refused (ip_stage={}, node_stage={:?})", d.t_ns / 1_000_000, d.ip, d.node, d.ip_stage, d.node_stage),
                &[],
            );
            return;
        }
    }
    let d2 = execute(ctx, &cfg, &steps, false, false);
    if d1 != d2 {
        let i = d1.iter().zip(d2.iter()).position(|(a, b)| a != b).unwrap_or(0);
        ctx.fail(
            "c18.prune-changes-decision",
            format!("decision #{i} differs with and without prune ticks: with {:?}, without {:?}", d1.get(i), d2.get(i)),
            &[],
        );
        return;
    }
    if steps.iter().any(|s| matches!(s, Step::Prune)) || passed < d1.len() {
        ctx.nontrivial = true;
    }
    interpose::set_clock_manual(interpose::manual_now_ns());
}
