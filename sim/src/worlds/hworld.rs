//! W-H: real `Handler`s (session, crypto, active requests, session cache, receive path with
//! filter and codecs) on a virtual network owned by the harness, under tokio's paused clock.
//! The harness plays the network (with faults), each handler's application and the adversary.

use crate::{core::Ctx, ident, interpose};
use discv5::{
    enr::{CombinedKey, NodeId},
    verif::{
        self,
        net::{Endpoint, Outbound},
        toolkit::{self, Decoded},
        Handler, HandlerIn, HandlerOut, Message, NodeAddress, NodeContact, PacketKind, Request, RequestBody, RequestId, Response, ResponseBody, SessionKeys,
    },
    ConfigBuilder, Enr, IpMode, ListenConfig, TokioExecutor,
};
use parking_lot::RwLock;
use std::{
    cmp::Reverse,
    collections::{BTreeMap, BinaryHeap},
    future::Future,
    net::{IpAddr, Ipv4Addr, SocketAddr},
    pin::Pin,
    sync::Arc,
    task::Poll,
    time::Duration,
};
use tokio::sync::{mpsc, oneshot};

pub const ATTACKER: usize = usize::MAX;

#[derive(Clone)]
pub struct NodeCfg {
    pub ident: usize,
    pub request_timeout_ms: u64,
    pub request_retries: u8,
    pub session_timeout_ms: u64,
    pub session_capacity: usize,
    pub packet_filter: bool,
    pub enr_seq: u64,
    /// the record advertises a UDP port other than the one the node really sends from
    /// (a NATed peer or a stale record)
    pub advertise_other_port: bool,
    /// the node listens on (and advertises) an IPv6 address
    pub v6: bool,
}

impl NodeCfg {
    pub fn new(ident: usize) -> Self {
        NodeCfg { ident, request_timeout_ms: 1000, request_retries: 1, session_timeout_ms: 86_400_000, session_capacity: 1000, packet_filter: false, enr_seq: 1, advertise_other_port: false, v6: false }
    }
}

pub struct Node {
    pub cfg: NodeCfg,
    pub id: NodeId,
    pub addr: SocketAddr,
    pub enr: Enr,
    pub alive: bool,
    pub exit: Option<oneshot::Sender<()>>,
    pub to_handler: Option<mpsc::UnboundedSender<HandlerIn>>,
    pub from_handler: Option<mpsc::Receiver<HandlerOut>>,
    pub ep: Option<Endpoint>,
    pub restarts: u32,
}

pub fn addr_of(idx: usize) -> SocketAddr {
    SocketAddr::new(IpAddr::V4(Ipv4Addr::new(10, 0, (idx + 1) as u8, 1)), 9000 + idx as u16)
}
pub fn addr6_of(idx: usize) -> SocketAddr {
    SocketAddr::new(IpAddr::V6(std::net::Ipv6Addr::new(0xfd00, 0, 0, 0, 0, 0, (idx + 1) as u16, 1)), 9000 + idx as u16)
}
pub fn node_addr(cfg: &NodeCfg, idx: usize) -> SocketAddr {
    if cfg.v6 {
        addr6_of(idx)
    } else {
        addr_of(idx)
    }
}

/// Where a datagram that reaches a node really came from.
#[derive(Clone, Debug, PartialEq)]
pub enum Origin {
    /// Byte-identical to datagram `wire` emitted by node `from` for this destination.
    Genuine { wire: usize, from: usize },
    /// Derived from a genuine datagram by the network (bit flip, truncation, splice, wrong
    /// destination, spoofed source ...).
    Mutated { wire: usize, how: &'static str },
    /// Crafted by the adversary.
    Injected { tag: &'static str },
}

#[derive(Clone)]
pub struct WireRec {
    pub t_ms: u64,
    pub from: usize,
    pub src: SocketAddr,
    pub dst: SocketAddr,
    pub dst_id: NodeId,
    pub bytes: Vec<u8>,
    pub dec: Option<Decoded>,
}

#[derive(Clone)]
pub struct InRec {
    pub t_ms: u64,
    pub src: SocketAddr,
    pub bytes: Vec<u8>,
    pub origin: Origin,
}

/// Harness-scheduled events.
pub enum Ev<X> {
    Deliver { to: usize, src: SocketAddr, bytes: Vec<u8>, origin: Origin },
    Custom(X),
}

pub enum Obs<X> {
    Datagram { from: usize, out: Outbound },
    Out { node: usize, ev: HandlerOut },
    Sched(Ev<X>),
    Horizon,
}

struct Queued<X> {
    at_ms: u64,
    seq: u64,
    ev: Ev<X>,
}
impl<X> PartialEq for Queued<X> {
    fn eq(&self, o: &Self) -> bool {
        self.at_ms == o.at_ms && self.seq == o.seq
    }
}
impl<X> Eq for Queued<X> {}
impl<X> PartialOrd for Queued<X> {
    fn partial_cmp(&self, o: &Self) -> Option<std::cmp::Ordering> {
        Some(self.cmp(o))
    }
}
impl<X> Ord for Queued<X> {
    fn cmp(&self, o: &Self) -> std::cmp::Ordering {
        (self.at_ms, self.seq).cmp(&(o.at_ms, o.seq))
    }
}

/// Per-run network fault profile (swarm style: each run enables a subset with its own rates).
#[derive(Clone, Debug, Default)]
pub struct NetProfile {
    pub drop_pct: u32,
    pub dup_pct: u32,
    pub delay_pct: u32,
    pub max_delay_ms: u32,
    pub base_latency_ms: u32,
    pub jitter_ms: u32,
    /// a delivered copy has one bit flipped
    pub corrupt_pct: u32,
    /// an additional stale copy arrives 50..2500 ms later
    pub replay_pct: u32,
}

pub struct HWorld<X> {
    pub nodes: Vec<Node>,
    heap: BinaryHeap<Reverse<Queued<X>>>,
    seq: u64,
    pub horizon_ms: u64,
    pub wire: Vec<WireRec>,
    pub inbound: Vec<Vec<InRec>>,
    pub outs: Vec<Vec<(u64, HandlerOut)>>,
    pub keylog: Vec<(u64, SessionKeys)>,
    pub profile: NetProfile,
    pub faults_on: bool,
    /// partition: pairs (a,b) of node indices that cannot talk until the given time
    pub partitions: Vec<(usize, usize, u64)>,
    pub attacker_addrs: Vec<SocketAddr>,
    /// datagrams that reached an attacker address: (t, wire index)
    pub attacker_inbox: Vec<(u64, usize)>,
    sleep: Option<Pin<Box<tokio::time::Sleep>>>,
    sleep_for: u64,
    pub steps: u64,
    pub step_cap: u64,
}

pub fn now_ms() -> u64 {
    interpose::sim_now_ms()
}

impl<X> HWorld<X> {
    pub fn new(horizon_ms: u64) -> Self {
        verif::net::install();
        HWorld {
            nodes: vec![],
            heap: BinaryHeap::new(),
            seq: 0,
            horizon_ms,
            wire: vec![],
            inbound: vec![],
            outs: vec![],
            keylog: vec![],
            profile: NetProfile { base_latency_ms: 1, ..Default::default() },
            faults_on: true,
            partitions: vec![],
            attacker_addrs: vec![SocketAddr::new(IpAddr::V4(Ipv4Addr::new(10, 9, 9, 1)), 30303), SocketAddr::new(IpAddr::V4(Ipv4Addr::new(10, 9, 9, 2)), 30304)],
            attacker_inbox: vec![],
            sleep: None,
            sleep_for: u64::MAX,
            steps: 0,
            step_cap: 60_000,
        }
    }

    pub fn record_for(cfg: &NodeCfg, idx: usize) -> Enr {
        let a = node_addr(cfg, idx);
        let port = if cfg.advertise_other_port { a.port() + 1000 } else { a.port() };
        match a.ip() {
            IpAddr::V4(v4) => ident::record(ident::RecSpec { ident: cfg.ident, seq: cfg.enr_seq, ip4: Some((v4.octets(), port)), ip6: None, pad: 0 }),
            IpAddr::V6(v6) => ident::record(ident::RecSpec { ident: cfg.ident, seq: cfg.enr_seq, ip4: None, ip6: Some((v6.octets(), port)), pad: 0 }),
        }
    }

    pub fn key_of(&self, idx: usize) -> CombinedKey {
        ident::pool()[self.nodes[idx].cfg.ident].key()
    }

    async fn spawn_handler(cfg: &NodeCfg, idx: usize) -> (oneshot::Sender<()>, mpsc::UnboundedSender<HandlerIn>, mpsc::Receiver<HandlerOut>, Endpoint, Enr) {
        let addr = node_addr(cfg, idx);
        let enr = Self::record_for(cfg, idx);
        let key = ident::pool()[cfg.ident].key();
        let listen = match addr {
            SocketAddr::V4(a) => ListenConfig::Ipv4 { ip: *a.ip(), port: a.port() },
            SocketAddr::V6(a) => ListenConfig::Ipv6 { ip: *a.ip(), port: a.port() },
        };
        let mut b = ConfigBuilder::new(listen);
        b.request_timeout(Duration::from_millis(cfg.request_timeout_ms))
            .request_retries(cfg.request_retries)
            .session_timeout(Duration::from_millis(cfg.session_timeout_ms))
            .session_cache_capacity(cfg.session_capacity);
        if cfg.packet_filter {
            b.enable_packet_filter();
        }
        let mut config = b.build();
        config.executor = Some(Box::new(TokioExecutor));
        let (exit, tx, rx) = Handler::spawn(Arc::new(RwLock::new(enr.clone())), Arc::new(RwLock::new(key)), config).await.expect("handler spawn");
        let ep = verif::net::take_endpoints().pop().expect("endpoint registered");
        (exit, tx, rx, ep, enr)
    }

    pub async fn add_node(&mut self, cfg: NodeCfg) -> usize {
        let idx = self.nodes.len();
        let (exit, tx, rx, ep, enr) = Self::spawn_handler(&cfg, idx).await;
        self.nodes.push(Node { id: enr.node_id(), addr: node_addr(&cfg, idx), enr, cfg, alive: true, exit: Some(exit), to_handler: Some(tx), from_handler: Some(rx), ep: Some(ep), restarts: 0 });
        self.inbound.push(vec![]);
        self.outs.push(vec![]);
        idx
    }

    /// Crash: the handler task and its socket tasks go away; nothing survives but key and record.
    pub fn crash(&mut self, idx: usize) {
        let n = &mut self.nodes[idx];
        n.alive = false;
        if let Some(e) = n.exit.take() {
            let _ = e.send(());
        }
        n.to_handler = None;
        n.from_handler = None;
        n.ep = None;
    }

    pub async fn restart(&mut self, idx: usize) {
        if self.nodes[idx].alive {
            self.crash(idx);
            // let the old tasks observe the exit signal
            tokio::task::yield_now().await;
        }
        let cfg = self.nodes[idx].cfg.clone();
        let (exit, tx, rx, ep, enr) = Self::spawn_handler(&cfg, idx).await;
        let n = &mut self.nodes[idx];
        n.alive = true;
        n.exit = Some(exit);
        n.to_handler = Some(tx);
        n.from_handler = Some(rx);
        n.ep = Some(ep);
        n.enr = enr;
        n.restarts += 1;
    }

    pub fn node_by_addr(&self, a: &SocketAddr) -> Option<usize> {
        self.nodes.iter().position(|n| n.addr == *a)
    }
    pub fn node_by_id(&self, id: &NodeId) -> Option<usize> {
        self.nodes.iter().position(|n| n.id == *id)
    }

    pub fn schedule(&mut self, delay_ms: u64, ev: Ev<X>) {
        let at = now_ms() + delay_ms;
        self.seq += 1;
        self.heap.push(Reverse(Queued { at_ms: at, seq: self.seq, ev }));
    }

    pub fn pending_events(&self) -> usize {
        self.heap.len()
    }

    pub fn contact(&self, idx: usize, with_enr: bool) -> NodeContact {
        let n = &self.nodes[idx];
        if with_enr {
            NodeContact::try_from_enr(n.enr.clone(), if n.cfg.v6 { IpMode::Ip6 } else { IpMode::default() }).expect("contactable")
        } else {
            NodeContact::new(n.enr.public_key(), n.addr, None)
        }
    }

    pub fn send_in(&self, idx: usize, m: HandlerIn) -> bool {
        match self.nodes[idx].to_handler.as_ref() {
            Some(tx) => tx.send(m).is_ok(),
            None => false,
        }
    }

    pub fn exemptions(&self, idx: usize) -> BTreeMap<SocketAddr, usize> {
        match self.nodes[idx].ep.as_ref() {
            Some(ep) => ep.expected_responses.read().iter().map(|(k, v)| (*k, *v)).collect(),
            None => BTreeMap::new(),
        }
    }

    /// Next observation: a datagram emitted by a node, a HandlerOut event, a due harness event or
    /// the horizon. Sources are polled in a fixed order; when nothing is ready the runtime idles and
    /// tokio's paused clock jumps to the next timer (the SUT's or the harness's).
    pub async fn next(&mut self) -> Obs<X> {
        self.steps += 1;
        if self.steps > self.step_cap {
            return Obs::Horizon;
        }
        loop {
            let now = now_ms();
            // due harness events first come after node outputs are drained (outputs are "now")
            let next_at = self.heap.peek().map(|q| q.0.at_ms).unwrap_or(u64::MAX).min(self.horizon_ms);
            if self.sleep.is_none() || self.sleep_for != next_at {
                let d = next_at.saturating_sub(now);
                self.sleep = Some(Box::pin(tokio::time::sleep(Duration::from_millis(d))));
                self.sleep_for = next_at;
            }
            let nodes = &mut self.nodes;
            let sleep = self.sleep.as_mut().unwrap();
            enum W {
                D(usize, Outbound),
                O(usize, HandlerOut),
                T,
            }
            let w = std::future::poll_fn(|cx| {
                for (i, n) in nodes.iter_mut().enumerate() {
                    if let Some(ep) = n.ep.as_mut() {
                        if let Poll::Ready(Some(d)) = ep.from_node.poll_recv(cx) {
                            return Poll::Ready(W::D(i, d));
                        }
                    }
                }
                for (i, n) in nodes.iter_mut().enumerate() {
                    if let Some(rx) = n.from_handler.as_mut() {
                        if let Poll::Ready(Some(o)) = rx.poll_recv(cx) {
                            return Poll::Ready(W::O(i, o));
                        }
                    }
                }
                if sleep.as_mut().poll(cx).is_ready() {
                    return Poll::Ready(W::T);
                }
                Poll::Pending
            })
            .await;
            match w {
                W::D(i, d) => return Obs::Datagram { from: i, out: d },
                W::O(i, o) => {
                    self.outs[i].push((now_ms(), o.clone()));
                    return Obs::Out { node: i, ev: o };
                }
                W::T => {
                    self.sleep = None;
                    let now = now_ms();
                    if let Some(q) = self.heap.peek() {
                        if q.0.at_ms <= now {
                            let q = self.heap.pop().unwrap().0;
                            return Obs::Sched(q.ev);
                        }
                    }
                    if now >= self.horizon_ms {
                        return Obs::Horizon;
                    }
                }
            }
        }
    }

    /// Absorb the session-key log of the SUT (H6).
    pub fn absorb_keys(&mut self) {
        let t = now_ms();
        for k in verif::take_session_keys() {
            self.keylog.push((t, k));
        }
    }

    /// Wire tap for a datagram emitted by node `from`: size and round-trip monitors, recording.
    pub fn tap(&mut self, ctx: &mut Ctx, from: usize, out: &Outbound) -> usize {
        let (dst, dst_id, bytes) = out;
        let dec = toolkit::decode_packet(dst_id, bytes).ok();
        if bytes.len() > 1280 {
            ctx.fail("wire.oversize-datagram", format!("node {from} emitted a {}-byte datagram", bytes.len()), &[]);
        } else if dec.is_none() {
            ctx.fail("wire.undecodable-datagram", format!("node {from} emitted a datagram that does not decode with the destination id"), &[]);
        }
        self.wire.push(WireRec { t_ms: now_ms(), from, src: self.nodes[from].addr, dst: *dst, dst_id: *dst_id, bytes: bytes.clone(), dec });
        self.wire.len() - 1
    }

    pub fn describe(dec: &Option<Decoded>) -> String {
        match dec {
            None => "undecodable".into(),
            Some(d) => match &d.kind {
                PacketKind::Message { .. } => format!("MSG n={}", hex::encode(&d.message_nonce[..4])),
                PacketKind::WhoAreYou { enr_seq, .. } => format!("WHOAREYOU n={} seq={enr_seq}", hex::encode(&d.message_nonce[..4])),
                PacketKind::Handshake { enr_record, .. } => format!("HANDSHAKE n={} enr={}", hex::encode(&d.message_nonce[..4]), enr_record.is_some()),
            },
        }
    }

    fn partitioned(&self, a: usize, b: usize) -> bool {
        let now = now_ms();
        self.partitions.iter().any(|(x, y, until)| now < *until && ((*x == a && *y == b) || (*x == b && *y == a)))
    }

    /// Route a genuine datagram with the run's delivery faults (drop / duplicate / delay).
    pub fn route(&mut self, ctx: &mut Ctx, wire_idx: usize) {
        let w = self.wire[wire_idx].clone();
        let what = Self::describe(&w.dec);
        if self.attacker_addrs.contains(&w.dst) {
            self.attacker_inbox.push((now_ms(), wire_idx));
            ctx.ev(format!("t={} n{}->attacker {what}", now_ms(), w.from));
            return;
        }
        let Some(to) = self.node_by_addr(&w.dst) else {
            ctx.ev(format!("t={} n{}->{} {what} (no such host)", now_ms(), w.from, w.dst));
            return;
        };
        if self.partitioned(w.from, to) {
            ctx.fault("partition_drop");
            ctx.ev(format!("t={} n{}->n{to} {what} PARTITIONED", now_ms(), w.from));
            return;
        }
        let p = self.profile.clone();
        let mut copies = 1;
        let mut note = String::new();
        if self.faults_on {
            if p.drop_pct > 0 && ctx.tape.choose(100) >= 100 - p.drop_pct {
                ctx.fault("drop");
                ctx.ev(format!("t={} n{}->n{to} {what} DROPPED", now_ms(), w.from));
                return;
            }
            if p.dup_pct > 0 && ctx.tape.choose(100) >= 100 - p.dup_pct {
                copies += 1 + ctx.tape.choose(2);
                ctx.fault("duplicate");
                note.push_str(&format!(" DUPx{copies}"));
            }
        }
        if self.faults_on && p.replay_pct > 0 && ctx.tape.choose(100) < p.replay_pct {
            let lat = 50 + ctx.tape.choose(2450) as u64;
            ctx.fault("late_replay");
            note.push_str(&format!(" REPLAY+{lat}"));
            self.schedule(lat, Ev::Deliver { to, src: w.src, bytes: w.bytes.clone(), origin: Origin::Genuine { wire: wire_idx, from: w.from } });
        }
        for _ in 0..copies {
            if self.faults_on && p.corrupt_pct > 0 && ctx.tape.choose(100) < p.corrupt_pct {
                let mut bytes = w.bytes.clone();
                let bit = ctx.tape.choose(bytes.len() as u32 * 8) as usize;
                bytes[bit / 8] ^= 1 << (bit % 8);
                ctx.fault("bit_flip");
                note.push_str(&format!(" FLIP{bit}"));
                let lat = p.base_latency_ms as u64;
                self.schedule(lat, Ev::Deliver { to, src: w.src, bytes, origin: Origin::Mutated { wire: wire_idx, how: "bit_flip" } });
                continue;
            }
            let mut lat = p.base_latency_ms as u64 + if p.jitter_ms > 0 { ctx.tape.choose(p.jitter_ms + 1) as u64 } else { 0 };
            if self.faults_on && p.delay_pct > 0 && ctx.tape.choose(100) >= 100 - p.delay_pct {
                lat += 1 + ctx.tape.choose(p.max_delay_ms.max(1)) as u64;
                ctx.fault("delay_reorder");
                note.push_str(&format!(" DELAY{lat}"));
            }
            self.schedule(lat, Ev::Deliver { to, src: w.src, bytes: w.bytes.clone(), origin: Origin::Genuine { wire: wire_idx, from: w.from } });
        }
        ctx.ev(format!("t={} n{}->n{to} {what}{note}", now_ms(), w.from));
    }

    /// Hand a datagram to a node's receive task.
    pub fn deliver(&mut self, to: usize, src: SocketAddr, bytes: Vec<u8>, origin: Origin) {
        if let Some(ep) = self.nodes[to].ep.as_ref() {
            let _ = ep.to_node.send((src, bytes.clone()));
            self.inbound[to].push(InRec { t_ms: now_ms(), src, bytes, origin });
        }
    }

    /// Default application behaviour for a request: the answer the protocol prescribes.
    pub fn default_response(&self, node: usize, from: &NodeAddress, req: &Request, nodes_total: u64) -> Vec<Response> {
        match &req.body {
            RequestBody::Ping { .. } => {
                let port = std::num::NonZeroU16::new(from.socket_addr.port()).unwrap_or(std::num::NonZeroU16::new(1).unwrap());
                vec![Response { id: req.id.clone(), body: ResponseBody::Pong { enr_seq: self.nodes[node].enr.seq(), ip: from.socket_addr.ip(), port } }]
            }
            RequestBody::FindNode { distances } => {
                let mut v = vec![];
                let total = nodes_total.max(1);
                for k in 0..total {
                    let nodes = if k == 0 && distances.contains(&0) { vec![self.nodes[node].enr.clone()] } else { vec![] };
                    v.push(Response { id: req.id.clone(), body: ResponseBody::Nodes { total, nodes } });
                }
                v
            }
            RequestBody::Talk { request, .. } => vec![Response { id: req.id.clone(), body: ResponseBody::Talk { response: request.clone() } }],
        }
    }

    /// The genuine record of the node with this id, as an application would know it.
    pub fn known_record(&self, id: &NodeId) -> Option<Enr> {
        self.node_by_id(id).map(|i| self.nodes[i].enr.clone())
    }

    pub fn shutdown(&mut self) {
        for i in 0..self.nodes.len() {
            if self.nodes[i].alive {
                self.crash(i);
            }
        }
        verif::net::uninstall();
    }

    /// Try to decrypt a Message/Handshake datagram with any key in the log that belongs to
    /// (owner -> peer) traffic; returns (key index in log, plaintext).
    pub fn decrypt_with_log(&self, dec: &Decoded, encrypting_node: &NodeId) -> Option<(usize, Vec<u8>)> {
        for (i, (_, k)) in self.keylog.iter().enumerate() {
            if &k.local != encrypting_node {
                continue;
            }
            if let Some(pt) = toolkit::decrypt(&k.encryption_key, dec.message_nonce, &dec.message, &dec.authenticated_data) {
                return Some((i, pt));
            }
        }
        None
    }
}

pub type BoxFut<'a> = Pin<Box<dyn Future<Output = ()> + 'a>>;

/// Build the paused, seeded, single-threaded runtime and run `f` in it with the simulated clock on.
pub fn block_on<F>(ctx: &mut Ctx, f: F)
where
    F: for<'a> FnOnce(&'a mut Ctx) -> BoxFut<'a>,
{
    let s1 = ctx.tape.choose(1 << 30) as u64;
    let mut seed_state = s1 ^ 0xA5A5_5A5A_1234_5678;
    let mut seed_bytes = [0u8; 32];
    for c in seed_bytes.chunks_mut(8) {
        c.copy_from_slice(&crate::prng::splitmix(&mut seed_state).to_le_bytes());
    }
    let rt = tokio::runtime::Builder::new_current_thread()
        .enable_all()
        .start_paused(true)
        .rng_seed(tokio::runtime::RngSeed::from_bytes(&seed_bytes))
        .build()
        .expect("runtime");
    rt.block_on(async {
        interpose::set_clock_tokio();
        f(ctx).await;
        ctx.sim_ns = interpose::sim_now_ns();
    });
    drop(rt);
    verif::net::uninstall();
}

pub fn rid(n: u64) -> RequestId {
    RequestId(n.to_be_bytes().to_vec())
}
pub fn rid_num(id: &RequestId) -> u64 {
    let mut b = [0u8; 8];
    let v = id.as_bytes();
    if v.len() <= 8 {
        b[8 - v.len()..].copy_from_slice(v);
    }
    u64::from_be_bytes(b)
}

pub fn decode_message(pt: &[u8]) -> Option<Message> {
    Message::decode(pt).ok()
}
