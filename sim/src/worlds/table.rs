//! W-T: the real `KBucketsTable` driven by generated operation histories under a simulated clock.
//! Oracles for C07 (structural invariants + pending rules) and C08 (closest / by-distance lookups).

use crate::{core::Ctx, interpose};
use discv5::{
    enr::NodeId,
    kbucket::{
        BucketInsertResult, ConnectionDirection, ConnectionState, Entry, FailureReason, InsertResult, KBucketsTable, Key, NodeStatus, UpdateResult,
    },
};
use std::{collections::BTreeMap, time::Duration};

pub type Id = [u8; 32];

pub fn xor(a: &Id, b: &Id) -> Id {
    let mut r = [0u8; 32];
    for i in 0..32 {
        r[i] = a[i] ^ b[i];
    }
    r
}
/// log2 distance (1..=256) or 0 for equal ids — computed from the raw bytes, independent of the SUT.
pub fn log2(a: &Id, b: &Id) -> u32 {
    let x = xor(a, b);
    for (i, byte) in x.iter().enumerate() {
        if *byte != 0 {
            return 256 - (i as u32 * 8 + byte.leading_zeros());
        }
    }
    0
}
fn short(id: &Id) -> String {
    format!("{}~{}", hex::encode(&id[..2]), hex::encode(&id[29..]))
}

/// id at exactly bucket `b` (log2 distance b+1) from `local`, low bits from `low`.
fn id_in_bucket(local: &Id, b: u32, low: u64) -> Id {
    let mut d = [0u8; 32];
    // spread `low` over the bits below b
    let mut x = low;
    for bit in 0..b.min(64) {
        if x & 1 == 1 {
            let byte = 31 - (bit / 8) as usize;
            d[byte] |= 1 << (bit % 8);
        }
        x >>= 1;
    }
    let byte = 31 - (b / 8) as usize;
    d[byte] |= 1 << (b % 8);
    // clear bits above b
    for bit in (b + 1)..256 {
        let by = 31 - (bit / 8) as usize;
        d[by] &= !(1 << (bit % 8));
    }
    xor(local, &d)
}

#[derive(Clone, Copy, PartialEq, Debug)]
struct St {
    connected: bool,
    incoming: bool,
}
fn st_of(s: NodeStatus) -> St {
    St { connected: s.state == ConnectionState::Connected, incoming: s.direction == ConnectionDirection::Incoming }
}
fn mk_status(connected: bool, incoming: bool) -> NodeStatus {
    NodeStatus {
        state: if connected { ConnectionState::Connected } else { ConnectionState::Disconnected },
        direction: if incoming { ConnectionDirection::Incoming } else { ConnectionDirection::Outgoing },
    }
}

#[derive(Clone)]
struct BucketSnap {
    nodes: Vec<(Id, St)>,
    pending: Option<Id>,
}

pub struct Which {
    pub c07: bool,
    pub c08: bool,
}

struct PendingRec {
    created_ns: u64,
}

pub fn run(ctx: &mut Ctx, which: Which) {
    interpose::set_clock_manual(0);
    // ---- configuration of this run (swarm style)
    let mut local = [0u8; 32];
    {
        let mut s = (ctx.tape.choose(1 << 30) as u64) << 32 | ctx.tape.choose(1 << 30) as u64;
        for chunk in local.chunks_mut(8) {
            chunk.copy_from_slice(&crate::prng::splitmix(&mut s).to_le_bytes());
        }
    }
    let max_incoming = match ctx.tape.choose(6) {
        0..=2 => 16,
        3 => 0,
        _ => ctx.tape.choose(17) as usize,
    };
    let timeout_ms: u64 = *ctx.tape.pick(&[0u64, 1, 40, 1000, 60_000, 100_000_000]);
    // hot buckets
    let nb = 1 + ctx.tape.choose(4);
    let mut hot: Vec<u32> = vec![];
    for _ in 0..nb {
        let b = match ctx.tape.choose(7) {
            6 => 64 * (1 + ctx.tape.choose(3)) - 1 + ctx.tape.choose(3), // around a 64-bit limb boundary: 63..65, 127..129, 191..193
            0 => ctx.tape.choose(4),           // 0..3 (tiny buckets)
            1 | 2 => 4 + ctx.tape.choose(5),   // 4..8 (can fill, low index)
            3 => 9 + ctx.tape.choose(240),     // middle
            _ => 250 + ctx.tape.choose(6),     // where random ids live
        };
        if !hot.contains(&b) {
            hot.push(b);
        }
    }
    // key pool
    let mut pool: Vec<Id> = vec![];
    for &b in &hot {
        let cap = if b >= 5 { 22u64 } else { 1u64 << b };
        let n = cap.min(22);
        for k in 0..n {
            let low = if b >= 5 { (k.wrapping_mul(0x9E37_79B9_7F4A_7C15) >> 7) ^ (k << 1) | (k & 1) } else { k };
            let id = id_in_bucket(&local, b, low);
            if !pool.contains(&id) {
                pool.push(id);
            }
        }
    }
    let nops = 8 + ctx.tape.choose(if ctx.tier == crate::core::Tier::Quick { 70 } else { 160 });
    ctx.ev(format!("cfg local=..{} max_incoming={max_incoming} pending_timeout_ms={timeout_ms} hot={hot:?} pool={} ops={nops}", short(&local), pool.len()));

    let local_key: Key<NodeId> = Key::from(NodeId::new(&local));
    let mut table: KBucketsTable<NodeId, u64> = KBucketsTable::new(local_key.clone(), Duration::from_millis(timeout_ms), max_incoming, None, None);
    let key_of = |id: &Id| -> Key<NodeId> { Key::from(NodeId::new(id)) };

    // reference bookkeeping
    let mut stamps: BTreeMap<Id, u64> = BTreeMap::new();
    let mut pend: BTreeMap<usize, (Id, PendingRec)> = BTreeMap::new();
    let mut next_val: u64 = 1;

    let snapshot = |table: &KBucketsTable<NodeId, u64>, pool: &Vec<Id>| -> Vec<BucketSnap> {
        let mut v: Vec<BucketSnap> = table
            .buckets_iter()
            .map(|b| BucketSnap { nodes: b.iter().map(|n| (n.key.preimage().raw(), st_of(n.status))).collect(), pending: None })
            .collect();
        for id in pool {
            let k = Key::from(NodeId::new(id));
            if let Some(b) = table.get_bucket(&k) {
                if b.as_pending(&k).is_some() {
                    let idx = table.get_index(&k).unwrap();
                    v[idx].pending = Some(*id);
                }
            }
        }
        v
    };

    // optional fill phase: a scripted burst of inserts into one hot bucket so that full buckets and
    // pending candidates are common (the burst goes through the same oracles as every other op)
    let mut forced: std::collections::VecDeque<(Id, bool, bool)> = Default::default();
    let fill_mode = ctx.tape.choose(3);
    if fill_mode > 0 {
        let big: Vec<u32> = hot.iter().copied().filter(|b| *b >= 5).collect();
        if !big.is_empty() {
            let b = *ctx.tape.pick(&big);
            let members: Vec<Id> = pool.iter().copied().filter(|id| log2(&local, id) == b + 1).collect();
            let n = (12 + ctx.tape.choose(6) as usize).min(members.len());
            let ndisc = ctx.tape.choose(4) as usize;
            for (k, id) in members.iter().take(n).enumerate() {
                forced.push_back((*id, k >= ndisc, fill_mode == 2 && ctx.tape.choose(3) == 0));
            }
        }
    }
    let nops = nops + forced.len() as u32;

    for opn in 1..=nops as u64 {
        if ctx.failed() {
            return;
        }
        let pre = snapshot(&table, &pool);
        let pend_pre: BTreeMap<usize, (Id, u64)> = pend.iter().map(|(k, (i, r))| (*k, (*i, r.created_ns))).collect();
        let now = interpose::manual_now_ns();
        let (kind, id, connected, incoming, arg) = if let Some((fid, fc, fi)) = forced.pop_front() {
            (0, fid, fc, fi, 0)
        } else {
            let kind = ctx.tape.choose(20);
            let id = *ctx.tape.pick(&pool);
            (kind, id, ctx.tape.choose(2) == 1, ctx.tape.choose(2) == 1, ctx.tape.choose(8))
        };
        let key = key_of(&id);
        let bidx = (log2(&local, &id) - 1) as usize;
        // (key, reported_connected) if the op is a status report on a present node or a fresh insert
        let mut status_report: Option<(Id, bool)> = None;
        let mut op_key: Option<Id> = Some(id);
        let mut lookups = false;
        match kind {
            0..=6 => {
                let v = next_val;
                next_val += 1;
                let r = table.insert_or_update(&key, v, mk_status(connected, incoming));
                ctx.ev(format!("t={}ms insert_or_update ..{} b{bidx} conn={connected} inc={incoming} -> {}", now / 1_000_000, short(&id), ins_name(&r)));
                match r {
                    InsertResult::Pending { .. } => {
                        pend.insert(bidx, (id, PendingRec { created_ns: now }));
                        ctx.count("pending_created");
                    }
                    InsertResult::Failed(FailureReason::BucketFull) => ctx.count("insert_full"),
                    InsertResult::Failed(FailureReason::TooManyIncoming) => ctx.count("too_many_incoming"),
                    InsertResult::Failed(_) | InsertResult::UpdatedPending => {}
                    _ => status_report = Some((id, connected)),
                }
            }
            7..=9 => {
                let dir = if arg < 3 { None } else { Some(if incoming { ConnectionDirection::Incoming } else { ConnectionDirection::Outgoing }) };
                let r = table.update_node_status(&key, if connected { ConnectionState::Connected } else { ConnectionState::Disconnected }, dir);
                ctx.ev(format!("t={}ms update_node_status ..{} b{bidx} conn={connected} dir={dir:?} -> {r:?}", now / 1_000_000, short(&id)));
                if !matches!(r, UpdateResult::Failed(FailureReason::KeyNonExistent)) && !matches!(r, UpdateResult::UpdatedPending) {
                    status_report = Some((id, connected));
                }
                if matches!(r, UpdateResult::Failed(FailureReason::TooManyIncoming)) {
                    ctx.count("too_many_incoming");
                }
            }
            10 | 11 => {
                let v = next_val;
                next_val += 1;
                let state = if arg < 4 { None } else { Some(if connected { ConnectionState::Connected } else { ConnectionState::Disconnected }) };
                let r = table.update_node(&key, v, state);
                ctx.ev(format!("t={}ms update_node ..{} b{bidx} state={state:?} -> {r:?}", now / 1_000_000, short(&id)));
                if state.is_some() && !matches!(r, UpdateResult::Failed(FailureReason::KeyNonExistent)) && !matches!(r, UpdateResult::UpdatedPending) {
                    status_report = Some((id, connected));
                }
            }
            12 => {
                let r = table.remove(&key);
                ctx.ev(format!("t={}ms remove ..{} b{bidx} -> {r}", now / 1_000_000, short(&id)));
            }
            13 | 14 => {
                let what = match table.entry(&key) {
                    Entry::Present(e, _) => match arg {
                        0 | 1 => {
                            e.remove();
                            "present.remove"
                        }
                        2 => {
                            let _ = e.value();
                            "present.value"
                        }
                        _ => {
                            let dir = if arg == 3 { None } else { Some(if incoming { ConnectionDirection::Incoming } else { ConnectionDirection::Outgoing }) };
                            let r = e.update(if connected { ConnectionState::Connected } else { ConnectionState::Disconnected }, dir);
                            status_report = Some((id, connected));
                            if r.is_err() {
                                "present.update(err)"
                            } else {
                                "present.update"
                            }
                        }
                    },
                    Entry::Pending(e, _) => match arg {
                        0 | 1 => {
                            let _ = e.value();
                            "pending.value"
                        }
                        _ => {
                            let _ = e.update(mk_status(connected, incoming));
                            "pending.update"
                        }
                    },
                    Entry::Absent(e) => {
                        let v = next_val;
                        next_val += 1;
                        match e.insert(v, mk_status(connected, incoming)) {
                            BucketInsertResult::Inserted => {
                                status_report = Some((id, connected));
                                "absent.insert(inserted)"
                            }
                            BucketInsertResult::Pending { .. } => {
                                pend.insert(bidx, (id, PendingRec { created_ns: now }));
                                ctx.count("pending_created");
                                "absent.insert(pending)"
                            }
                            _ => "absent.insert(failed)",
                        }
                    }
                    Entry::SelfEntry => "self",
                };
                ctx.ev(format!("t={}ms entry ..{} b{bidx} conn={connected} inc={incoming} {what}", now / 1_000_000, short(&id)));
            }
            15 => {
                let n = table.iter().count();
                op_key = None;
                ctx.ev(format!("t={}ms iter -> {n}", now / 1_000_000));
            }
            16 | 17 => {
                op_key = None;
                lookups = true;
                ctx.ev(format!("t={}ms lookups", now / 1_000_000));
            }
            _ => {
                op_key = None;
                let d_ms = match arg {
                    0 => 0,
                    1 => 1,
                    2 => timeout_ms / 2,
                    3 => timeout_ms.saturating_sub(1),
                    4 => timeout_ms,
                    5 => timeout_ms + 1,
                    6 => 7,
                    _ => 3_600_000,
                }
                .min(4_000_000_000);
                interpose::advance_manual(d_ms * 1_000_000);
                ctx.ev(format!("t={}ms advance {d_ms}ms", now / 1_000_000));
            }
        }
        if lookups && which.c08 {
            check_lookups(ctx, &mut table, &local, &pool);
            if ctx.failed() {
                return;
            }
        }
        // drain applied-pending records
        let mut applied = vec![];
        while let Some(a) = table.take_applied_pending() {
            applied.push((a.inserted.preimage().raw(), a.evicted.map(|n| (n.key.preimage().raw(), st_of(n.status)))));
        }
        let post = snapshot(&table, &pool);
        let now_after = interpose::manual_now_ns();
        if !applied.is_empty() {
            ctx.nontrivial = true;
        }

        // ---- stamp bookkeeping
        for (i, b) in post.iter().enumerate() {
            for (nid, _) in &b.nodes {
                let was_present = pre[i].nodes.iter().any(|(p, _)| p == nid);
                let was_pending = pre[i].pending == Some(*nid);
                if !was_present && was_pending && Some(*nid) != op_key.filter(|_| status_report.is_some()) {
                    stamps.insert(*nid, 2 * opn - 1);
                }
                // became a pending candidate and was let in within this very operation (pending timeout
                // already over when the table was next looked at): its admission is its latest status report
                if !was_present && !was_pending && status_report.is_none() && Some(*nid) == op_key {
                    stamps.insert(*nid, 2 * opn);
                }
            }
        }
        if let Some((k, _)) = status_report {
            stamps.insert(k, 2 * opn);
        }

        if which.c07 {
            // ---- structural invariants
            let mut seen: BTreeMap<Id, usize> = BTreeMap::new();
            for (i, b) in post.iter().enumerate() {
                if b.nodes.len() > 16 {
                    ctx.fail("c07.bucket-size", format!("bucket {i} holds {} nodes", b.nodes.len()), &[]);
                    return;
                }
                let mut seen_conn = false;
                let mut last_stamp = 0u64;
                let mut inc_conn = 0;
                for (nid, st) in &b.nodes {
                    if *nid == local {
                        ctx.fail("c07.local-stored", format!("local id stored in bucket {i}"), &[]);
                        return;
                    }
                    let d = log2(&local, nid);
                    if d as usize != i + 1 {
                        ctx.fail("c07.wrong-bucket", format!("node ..{} with log2 distance {d} sits in bucket index {i}", short(nid)), &[]);
                        return;
                    }
                    if seen.insert(*nid, i).is_some() {
                        ctx.fail("c07.duplicate", format!("node ..{} occurs twice", short(nid)), &[]);
                        return;
                    }
                    if st.connected {
                        if !seen_conn {
                            last_stamp = 0;
                        }
                        seen_conn = true;
                        if st.incoming {
                            inc_conn += 1;
                        }
                    } else if seen_conn {
                        ctx.fail("c07.order-state", format!("bucket {i}: disconnected node ..{} after a connected one", short(nid)), &[]);
                        return;
                    }
                    let s = stamps.get(nid).copied().unwrap_or(0);
                    if s <= last_stamp {
                        ctx.fail(
                            "c07.order-recency",
                            format!("bucket {i}: node ..{} (last status report at op-stamp {s}) placed after a node reported at {last_stamp} in the same group", short(nid)),
                            &[],
                        );
                        return;
                    }
                    last_stamp = s;
                }
                if inc_conn > max_incoming {
                    ctx.fail("c07.incoming-limit", format!("bucket {i}: {inc_conn} connected incoming nodes, limit {max_incoming}"), &[]);
                    return;
                }
                if let Some(p) = b.pending {
                    if b.nodes.iter().any(|(n, _)| *n == p) {
                        ctx.fail("c07.duplicate-pending", format!("bucket {i}: node ..{} both stored and pending", short(&p)), &[]);
                        return;
                    }
                }
            }
            // ---- pending rules
            for (i, b) in post.iter().enumerate() {
                for (nid, _) in &b.nodes {
                    let was_present = pre[i].nodes.iter().any(|(p, _)| p == nid);
                    if was_present || pre[i].pending != Some(*nid) {
                        continue;
                    }
                    // pending -> present transition
                    ctx.count("pending_applied");
                    let own = op_key == Some(*nid) && !matches!(kind, 12);
                    let rec = applied.iter().find(|(ins, _)| ins == nid);
                    if let Some((pid, created_ns)) = pend_pre.get(&i) {
                        if pid == nid && !own {
                            let due = created_ns + timeout_ms * 1_000_000;
                            if now_after < due {
                                ctx.fail(
                                    "c07.pending-early",
                                    format!("bucket {i}: pending node ..{} created at {}ms entered at {}ms, before its timeout of {timeout_ms}ms", short(nid), created_ns / 1_000_000, now_after / 1_000_000),
                                    &[],
                                );
                                return;
                            }
                        }
                    }
                    if let Some((_, Some((ev_id, ev_st)))) = rec {
                        ctx.count("pending_evicted_head");
                        let head = pre[i].nodes.first();
                        if pre[i].nodes.len() == 16 {
                            if head.map(|h| h.0) != Some(*ev_id) || ev_st.connected {
                                ctx.fail(
                                    "c07.pending-evicts-wrong",
                                    format!("bucket {i}: pending ..{} evicted ..{} (connected={}), but the least-recently-active node was ..{}", short(nid), short(ev_id), ev_st.connected, head.map(|h| short(&h.0)).unwrap_or_default()),
                                    &[],
                                );
                                return;
                            }
                        }
                    }
                }
                // a pending node vanished or got applied => forget record
                if let Some((pid, _)) = pend.get(&i) {
                    if b.pending != Some(*pid) {
                        pend.remove(&i);
                    }
                }
            }
            // head reconnects first => pending discarded
            if let (Some((k, true)), true) = (status_report, applied.is_empty()) {
                let i = (log2(&local, &k) - 1) as usize;
                if pre[i].pending.is_some() && pre[i].nodes.first().map(|h| h.0) == Some(k) && pre[i].pending != Some(k) {
                    ctx.count("head_reconnected_with_pending");
                    // the pending slot must now be empty, and the old pending node must not have been stored
                    let p = pre[i].pending.unwrap();
                    if post[i].pending.is_some() || post[i].nodes.iter().any(|(n, _)| *n == p) {
                        ctx.fail("c07.pending-not-discarded", format!("bucket {i}: head ..{} reconnected but pending ..{} was kept", short(&k), short(&p)), &[]);
                        return;
                    }
                }
            }
        }
    }
    if which.c08 {
        check_lookups(ctx, &mut table, &local, &pool);
    }
    let occupied: Vec<usize> = table.buckets_iter().enumerate().filter(|(_, b)| b.num_entries() > 0).map(|(i, _)| i).collect();
    ctx.sample = Some(serde_json::json!({"occupied_buckets": occupied, "entries": table.iter_ref().count()}));
    if occupied.iter().any(|&i| i < 8) {
        ctx.count("runs_with_low_bucket_occupied");
    }
    ctx.nontrivial = true;
}

fn ins_name<T>(r: &InsertResult<T>) -> String {
    match r {
        InsertResult::Inserted => "Inserted".into(),
        InsertResult::Pending { .. } => "Pending".into(),
        InsertResult::StatusUpdated { promoted_to_connected } => format!("StatusUpdated({promoted_to_connected})"),
        InsertResult::ValueUpdated => "ValueUpdated".into(),
        InsertResult::Updated { promoted_to_connected } => format!("Updated({promoted_to_connected})"),
        InsertResult::UpdatedPending => "UpdatedPending".into(),
        InsertResult::Failed(r) => format!("Failed({r:?})"),
    }
}

/// C08 oracle: closest_* equal the sorted full scan; nodes_by_distances is exact up to the cap.
fn check_lookups(ctx: &mut Ctx, table: &mut KBucketsTable<NodeId, u64>, local: &Id, pool: &[Id]) {
    // which family of lookups touches the table first matters: both apply pending nodes whose timeout has run out
    let order: [u8; 2] = if ctx.tape.choose(2) == 0 { [0, 1] } else { [1, 0] };
    for phase in order {
        if phase == 0 {
            check_closest(ctx, table, local, pool);
        } else {
            check_by_distance(ctx, table, local);
        }
        if ctx.failed() {
            return;
        }
    }
}

fn check_closest(ctx: &mut Ctx, table: &mut KBucketsTable<NodeId, u64>, local: &Id, pool: &[Id]) {
    let ntargets = 3;
    for _ in 0..ntargets {
        // target selection: local, stored id, id at a chosen log2 distance with low bits set, random
        let tk = ctx.tape.choose(10);
        let target: Id = match tk {
            0 => *local,
            8 | 9 => {
                // distance built limb by limb (64-bit words) from runs of set and clear bits: the shapes a
                // word-at-a-time scan of the distance would treat specially
                let mut d = [0u8; 32];
                for limb in 0..4usize {
                    let j = ctx.tape.choose(64);
                    let w: u64 = match ctx.tape.choose(7) {
                        0 => 0,
                        1 => u64::MAX,
                        2 => (1u64 << j) - 1,
                        3 => !((1u64 << j) - 1),
                        4 => 1u64 << j,
                        5 => !(1u64 << j),
                        _ => {
                            let mut s = ctx.tape.choose(1 << 30) as u64;
                            crate::prng::splitmix(&mut s)
                        }
                    };
                    // limb 0 = least significant = bytes 24..32 (big-endian id)
                    let at = 32 - 8 * (limb + 1);
                    d[at..at + 8].copy_from_slice(&w.to_be_bytes());
                }
                xor(local, &d)
            }
            1 | 2 => *ctx.tape.pick(pool),
            3..=5 => {
                let d = ctx.tape.choose(257); // 0..=256
                if d == 0 {
                    *local
                } else {
                    let low = ctx.tape.choose(1 << 16) as u64 | 1 | ((ctx.tape.choose(4) as u64) << 1);
                    id_in_bucket(local, d - 1, low)
                }
            }
            _ => {
                let mut s = ctx.tape.choose(1 << 30) as u64;
                let mut t = [0u8; 32];
                for c in t.chunks_mut(8) {
                    c.copy_from_slice(&crate::prng::splitmix(&mut s).to_le_bytes());
                }
                t
            }
        };
        let tkey: Key<NodeId> = Key::from(NodeId::new(&target));
        let variant = ctx.tape.choose(3);
        let got: Vec<(Id, Option<bool>, Option<u64>)> = match variant {
            0 => table.closest_keys(&tkey).map(|k| (k.preimage().raw(), None, None)).collect(),
            1 => table.closest_values(&tkey).map(|v| (v.key.preimage().raw(), None, Some(v.value))).collect(),
            _ => table.closest_values_predicate(&tkey, |v: &u64| v % 2 == 0).map(|v| (v.key.preimage().raw(), Some(v.predicate_match), Some(v.value))).collect(),
        };
        let mut expect: Vec<(Id, u64)> = table.iter_ref().map(|e| (e.node.key.preimage().raw(), *e.node.value)).collect();
        expect.sort_by_key(|(id, _)| xor(id, &target));
        ctx.count("closest_checked");
        let tdist = log2(local, &target);
        let lowbit = xor(local, &target)[31] & 1 == 1;
        let b0_occupied = expect.iter().any(|(id, _)| log2(local, id) == 1);
        if b0_occupied {
            ctx.count("closest_with_bucket0_occupied");
        }
        let got_ids: Vec<Id> = got.iter().map(|g| g.0).collect();
        let exp_ids: Vec<Id> = expect.iter().map(|e| e.0).collect();
        if got_ids != exp_ids {
            let mut tags: Vec<&str> = vec![];
            let mut sorted_got = got_ids.clone();
            sorted_got.sort();
            let mut dedup = sorted_got.clone();
            dedup.dedup();
            let dup = dedup.len() != sorted_got.len();
            if dup {
                tags.push("duplicate-yield");
                let dups: Vec<&Id> = sorted_got.windows(2).filter(|w| w[0] == w[1]).map(|w| &w[0]).collect();
                if dups.iter().all(|d| log2(local, d) == 1) {
                    tags.push("bucket0-twice");
                }
            }
            if lowbit {
                tags.push("target-distance-bit0-set");
            }
            if tdist == 0 {
                tags.push("target-is-local");
            }
            ctx.ev(format!("closest variant={variant} target=..{} (log2 {tdist}, bit0 {lowbit})", short(&target)));
            ctx.fail(
                "c08.closest-not-sorted-scan",
                format!(
                    "closest iteration yielded {} items [{}], sorted full scan has {} [{}]",
                    got_ids.len(),
                    got_ids.iter().map(short).collect::<Vec<_>>().join(","),
                    exp_ids.len(),
                    exp_ids.iter().map(short).collect::<Vec<_>>().join(",")
                ),
                &tags,
            );
            return;
        }
        for (g, e) in got.iter().zip(expect.iter()) {
            if let Some(v) = g.2 {
                if v != e.1 {
                    ctx.fail("c08.closest-wrong-value", format!("value of ..{} is {v}, table has {}", short(&g.0), e.1), &[]);
                    return;
                }
            }
            if let Some(m) = g.1 {
                if m != (e.1 % 2 == 0) {
                    ctx.fail("c08.predicate-flag", format!("predicate flag of ..{} is {m}, value {}", short(&g.0), e.1), &[]);
                    return;
                }
            }
        }
    }
}

fn check_by_distance(ctx: &mut Ctx, table: &mut KBucketsTable<NodeId, u64>, local: &Id) {
    // nodes_by_distances
    for _ in 0..2 {
        let nd = ctx.tape.choose(5);
        let mut ds: Vec<u64> = vec![];
        for _ in 0..nd {
            let d = match ctx.tape.choose(6) {
                0 => 0u64,
                1 => 257 + ctx.tape.choose(3) as u64,
                2 => u64::MAX - ctx.tape.choose(2) as u64,
                _ => {
                    // bias to occupied distances
                    let occ: Vec<u64> = table.buckets_iter().enumerate().filter(|(_, b)| b.num_entries() > 0).map(|(i, _)| i as u64 + 1).collect();
                    if !occ.is_empty() && ctx.tape.choose(4) != 0 {
                        *ctx.tape.pick(&occ)
                    } else {
                        1 + ctx.tape.choose(256) as u64
                    }
                }
            };
            if !ds.contains(&d) {
                ds.push(d);
            }
        }
        // one list in ten is long: hundreds of distinct out-of-range values (and, less often, every in-range
        // distance) with the occupied distances anywhere among them, also at the very end
        if ctx.tape.choose(10) == 0 {
            let junk = 200 + ctx.tape.choose(200) as u64;
            let mut long: Vec<u64> = (0..junk).map(|i| 257 + i * (1 + ctx.tape.choose(3) as u64)).collect();
            long.dedup();
            if ctx.tape.choose(3) == 0 {
                long.extend(1..=256u64);
            }
            let keep = std::mem::take(&mut ds);
            for (k, d) in keep.into_iter().enumerate() {
                if long.contains(&d) {
                    continue;
                }
                match (k + ctx.tape.choose(3) as usize) % 3 {
                    0 => long.insert(0, d),
                    1 => long.push(d),
                    _ => {
                        let at = ctx.tape.choose(long.len() as u32 + 1) as usize;
                        long.insert(at, d);
                    }
                }
            }
            ds = long;
            ctx.count("by_distance_long_lists");
        }
        let cap = 1 + ctx.tape.choose(20) as usize;
        let got: Vec<Id> = table.nodes_by_distances(&ds, cap).into_iter().map(|e| e.node.key.preimage().raw()).collect();
        let all: Vec<Id> = table.iter_ref().map(|e| e.node.key.preimage().raw()).filter(|id| ds.contains(&(log2(local, id) as u64))).collect();
        let dshow = if ds.len() > 12 { format!("[{} distances, in range: {:?}]", ds.len(), ds.iter().enumerate().filter(|(_, d)| **d <= 256).map(|(i, d)| format!("{d}@{i}")).take(12).collect::<Vec<_>>()) } else { format!("{ds:?}") };
        ctx.count("by_distance_checked");
        let mut g2 = got.clone();
        g2.sort();
        g2.dedup();
        if g2.len() != got.len() {
            ctx.fail("c08.by-distance-duplicate", format!("nodes_by_distances({dshow},{cap}) returned a node twice"), &[]);
            return;
        }
        if let Some(bad) = got.iter().find(|id| !all.contains(id)) {
            ctx.fail("c08.by-distance-foreign", format!("nodes_by_distances({dshow},{cap}) returned ..{} at log2 distance {}", short(bad), log2(local, bad)), &[]);
            return;
        }
        let want = all.len().min(cap);
        if got.len() != want {
            ctx.fail("c08.by-distance-count", format!("nodes_by_distances({dshow},{cap}) returned {} nodes, {} are stored at those distances", got.len(), all.len()), &[]);
            return;
        }
    }
}
