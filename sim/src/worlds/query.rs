//! W-Q: the real iterative query state machines (`FindNodeQuery`, `PredicateQuery`) and the real
//! `QueryPool`, driven with generated event orders under explicit simulated time. C09 + C10.

use crate::{core::Ctx, interpose};
use discv5::{
    enr::NodeId,
    verif::query::{self, FindNode, Pool, Predicate, QueryPoolState, QueryState, Rec},
};
use std::{
    collections::{BTreeMap, BTreeSet},
    time::{Duration, Instant},
};

type Id = [u8; 32];

fn short(id: &Id) -> String {
    hex::encode(&id[..3])
}
fn xor(a: &Id, b: &Id) -> Id {
    let mut r = [0u8; 32];
    for i in 0..32 {
        r[i] = a[i] ^ b[i];
    }
    r
}

enum Machine {
    Find(FindNode),
    Pred(Predicate),
}
impl Machine {
    fn next(&mut self, now: Instant) -> QueryState<NodeId> {
        match self {
            Machine::Find(q) => q.next(now),
            Machine::Pred(q) => q.next(now),
        }
    }
    fn success(&mut self, p: &NodeId, recs: &[Rec]) {
        match self {
            Machine::Find(q) => q.on_success(p, recs.iter().map(|r| r.id).collect()),
            Machine::Pred(q) => q.on_success(p, recs),
        }
    }
    fn failure(&mut self, p: &NodeId) {
        match self {
            Machine::Find(q) => q.on_failure(p),
            Machine::Pred(q) => q.on_failure(p),
        }
    }
    fn result(self) -> Vec<NodeId> {
        match self {
            Machine::Find(q) => q.into_result(),
            Machine::Pred(q) => q.into_result(),
        }
    }
}

/// Reference bookkeeping for one query (what the harness asked, told and learned).
struct QRef {
    predicate: bool,
    target: Id,
    parallelism: usize,
    num_results: usize,
    peer_timeout_ns: u64,
    initial: Vec<(Id, bool)>,
    asked: BTreeMap<Id, u64>,
    /// ids with any report (success or failure) after being asked
    reported: BTreeSet<Id>,
    /// ids for which a success was reported after being asked
    answered: BTreeSet<Id>,
    successes_after_ask: usize,
    /// ids reported with flag=true by a success of an asked peer, or initial with flag
    flagged: BTreeSet<Id>,
    /// candidates the query certainly learned of
    learned: BTreeSet<Id>,
}

impl QRef {
    fn in_flight(&self, now_ns: u64) -> usize {
        self.asked.iter().filter(|(id, t)| !self.reported.contains(*id) && now_ns < **t + self.peer_timeout_ns).count()
    }
    fn outstanding(&self) -> Vec<Id> {
        self.asked.keys().filter(|id| !self.reported.contains(*id)).copied().collect()
    }

    /// `next()` handed out `p`: C09 (a) and (b).
    fn on_ask(&mut self, ctx: &mut Ctx, p: Id, now_ns: u64, tag: &str) {
        if self.asked.contains_key(&p) {
            ctx.fail("c09.peer-asked-twice", format!("{tag}: peer {} returned by next() a second time", short(&p)), &[]);
            return;
        }
        self.asked.insert(p, now_ns);
        let inflight = self.in_flight(now_ns);
        let bound = if self.successes_after_ask < self.parallelism { self.parallelism } else { self.parallelism.max(self.num_results) };
        if inflight > bound {
            ctx.fail(
                "c09.parallelism-exceeded",
                format!("{tag}: {inflight} requests in flight after asking {}, bound {bound} (parallelism {}, num_results {}, successes so far {})", short(&p), self.parallelism, self.num_results, self.successes_after_ask),
                &[],
            );
        }
        if inflight > self.parallelism {
            ctx.count("inflight_above_parallelism_while_stalled");
        }
    }

    fn note_success(&mut self, p: Id, recs: &[Rec]) {
        if self.asked.contains_key(&p) {
            let first_report = !self.reported.contains(&p);
            self.reported.insert(p);
            self.answered.insert(p);
            self.successes_after_ask += 1;
            for r in recs {
                if r.flag {
                    self.flagged.insert(r.id.raw());
                }
                if first_report {
                    self.learned.insert(r.id.raw());
                }
            }
        }
    }
    fn note_failure(&mut self, p: Id) {
        if self.asked.contains_key(&p) {
            self.reported.insert(p);
        }
    }

    /// C10 on the final result.
    fn check_result(&self, ctx: &mut Ctx, result: &[NodeId], timed_out: bool, tag: &str) {
        let ids: Vec<Id> = result.iter().map(|n| n.raw()).collect();
        ctx.count("results_checked");
        if !ids.is_empty() {
            ctx.count("results_nonempty");
        }
        if ids.len() > self.num_results {
            ctx.fail("c10.too-many-results", format!("{tag}: {} results, k = {}", ids.len(), self.num_results), &[]);
            return;
        }
        for w in ids.windows(2) {
            if xor(&w[0], &self.target) >= xor(&w[1], &self.target) {
                ctx.fail("c10.not-increasing-distance", format!("{tag}: result {} is not closer to the target than its successor {}", short(&w[0]), short(&w[1])), &[]);
                return;
            }
        }
        for id in &ids {
            if !self.asked.contains_key(id) || !self.answered.contains(id) {
                ctx.fail("c10.result-never-answered", format!("{tag}: result {} never answered the lookup's request (asked: {}, success reported: {})", short(id), self.asked.contains_key(id), self.answered.contains(id)), &[]);
                return;
            }
            if self.predicate && !self.flagged.contains(id) {
                ctx.fail("c10.predicate-result-unmatched", format!("{tag}: result {} was never reported with a record satisfying the predicate", short(id)), &[]);
                return;
            }
        }
        if ids.len() < self.num_results && !timed_out {
            for c in &self.learned {
                if !self.asked.contains_key(c) {
                    ctx.fail(
                        "c10.incomplete",
                        format!("{tag}: only {} of k={} results and no timeout, but learned candidate {} was never contacted", ids.len(), self.num_results, short(c)),
                        &[],
                    );
                    return;
                }
            }
            ctx.count("short_result_completeness_checked");
        }
    }
}

struct Universe {
    ids: Vec<Id>,
    target: Id,
}

fn make_universe(ctx: &mut Ctx) -> Universe {
    let mut s = (ctx.tape.choose(1 << 30) as u64) << 20 | 0x5eed;
    let mut gen = || {
        let mut t = [0u8; 32];
        for c in t.chunks_mut(8) {
            c.copy_from_slice(&crate::prng::splitmix(&mut s).to_le_bytes());
        }
        t
    };
    let target = gen();
    let n = 6 + ctx.tape.choose(40) as usize;
    let mut ids: Vec<Id> = (0..n).map(|_| gen()).collect();
    // a few ids very close to the target, and the target itself
    for k in 0..3u8 {
        let mut c = target;
        c[31] ^= 1 << k;
        ids.push(c);
    }
    ids.push(target);
    Universe { ids, target }
}

struct Cfg {
    predicate: bool,
    parallelism: usize,
    num_results: usize,
    peer_timeout_ms: u64,
    initial: Vec<(Id, bool)>,
}

fn make_cfg(ctx: &mut Ctx, u: &Universe, allow_zero_parallelism: bool) -> Cfg {
    let predicate = ctx.tape.choose(2) == 1;
    // (pool world: one lookup in ten is configured with parallelism 0; it can ask nobody and must still end,
    // by the query timeout)
    let parallelism = if allow_zero_parallelism && ctx.tape.choose(10) == 0 { 0 } else { 1 + ctx.tape.choose(5) as usize };
    let num_results = match ctx.tape.choose(8) {
        0 => 0,
        1 => 1,
        2 => 16,
        _ => 1 + ctx.tape.choose(20) as usize,
    };
    let peer_timeout_ms = *ctx.tape.pick(&[10u64, 1000, 10_000]);
    let ninit = ctx.tape.choose(u.ids.len() as u32 + 1) as usize;
    let mut initial = vec![];
    for _ in 0..ninit {
        let id = *ctx.tape.pick(&u.ids);
        if !initial.iter().any(|(i, _)| *i == id) {
            initial.push((id, ctx.tape.choose(3) != 0));
        }
    }
    Cfg { predicate, parallelism, num_results, peer_timeout_ms, initial }
}

fn make_ref(cfg: &Cfg, u: &Universe) -> QRef {
    let mut r = QRef {
        predicate: cfg.predicate,
        target: u.target,
        parallelism: cfg.parallelism,
        num_results: cfg.num_results,
        peer_timeout_ns: cfg.peer_timeout_ms * 1_000_000,
        initial: cfg.initial.clone(),
        asked: BTreeMap::new(),
        reported: BTreeSet::new(),
        answered: BTreeSet::new(),
        successes_after_ask: 0,
        flagged: BTreeSet::new(),
        learned: BTreeSet::new(),
    };
    for (id, _) in cfg.initial.iter().take(cfg.num_results) {
        r.learned.insert(*id);
    }
    // every initial candidate handed over with a matching record was "reported to the lookup with a
    // record satisfying the predicate", whether or not the implementation keeps more than the first k
    // of them (the pinned one truncates, a refactoring that keeps them all is just as right)
    for (id, f) in cfg.initial.iter() {
        if *f {
            r.flagged.insert(*id);
        }
    }
    r
}

fn gen_recs(ctx: &mut Ctx, u: &Universe) -> Vec<Rec> {
    let n = ctx.tape.choose(7) as usize;
    (0..n).map(|_| Rec { id: NodeId::new(ctx.tape.pick(&u.ids)), flag: ctx.tape.choose(3) != 0 }).collect()
}

/// Pick the peer an event is about: mostly an in-flight one; sometimes late, never-asked, unknown.
fn pick_peer(ctx: &mut Ctx, r: &QRef, u: &Universe) -> (Id, &'static str) {
    let out = r.outstanding();
    let k = ctx.tape.choose(10);
    if !out.is_empty() && k < 7 {
        return (*ctx.tape.pick(&out), "outstanding");
    }
    let asked: Vec<Id> = r.asked.keys().copied().collect();
    if !asked.is_empty() && k < 8 {
        return (*ctx.tape.pick(&asked), "already-asked");
    }
    if k < 9 {
        return (*ctx.tape.pick(&u.ids), "any-known-id");
    }
    let mut x = [0xEEu8; 32];
    x[0] = ctx.tape.choose(256) as u8;
    (x, "unknown-id")
}

/// Direct drive of one state machine.
pub fn run_direct(ctx: &mut Ctx) {
    interpose::set_clock_manual(0);
    let u = make_universe(ctx);
    let cfg = make_cfg(ctx, &u, false);
    let mut r = make_ref(&cfg, &u);
    let tnode = NodeId::new(&u.target);
    let pt = Duration::from_millis(cfg.peer_timeout_ms);
    let mut m = if cfg.predicate {
        Machine::Pred(Predicate::new(cfg.parallelism, cfg.num_results, pt, tnode, cfg.initial.iter().map(|(i, f)| (NodeId::new(i), *f)).collect()))
    } else {
        Machine::Find(FindNode::new(cfg.parallelism, cfg.num_results, pt, tnode, cfg.initial.iter().map(|(i, _)| NodeId::new(i)).collect()))
    };
    ctx.ev(format!(
        "cfg {} parallelism={} k={} peer_timeout={}ms universe={} initial={}",
        if cfg.predicate { "predicate" } else { "findnode" },
        cfg.parallelism,
        cfg.num_results,
        cfg.peer_timeout_ms,
        u.ids.len(),
        cfg.initial.len()
    ));
    let steps = 10 + ctx.tape.choose(120);
    let mut finished = false;
    for _ in 0..steps {
        if ctx.failed() {
            return;
        }
        let now_ns = interpose::manual_now_ns();
        match ctx.tape.choose(10) {
            0..=4 => match m.next(Instant::now()) {
                QueryState::Waiting(Some(p)) => {
                    ctx.ev(format!("t={}ms next -> ask {}", now_ns / 1_000_000, short(&p.raw())));
                    r.on_ask(ctx, p.raw(), now_ns, "direct");
                }
                QueryState::Waiting(None) => ctx.ev(format!("t={}ms next -> waiting", now_ns / 1_000_000)),
                QueryState::WaitingAtCapacity => ctx.ev(format!("t={}ms next -> at-capacity", now_ns / 1_000_000)),
                QueryState::Finished => {
                    ctx.ev(format!("t={}ms next -> finished", now_ns / 1_000_000));
                    finished = true;
                    break;
                }
            },
            5 | 6 | 7 => {
                let (p, why) = pick_peer(ctx, &r, &u);
                let recs = gen_recs(ctx, &u);
                let late = r.asked.get(&p).map(|t| now_ns >= *t + r.peer_timeout_ns).unwrap_or(false) && !r.reported.contains(&p);
                if late {
                    ctx.fault("late_success_after_peer_timeout");
                }
                if why != "outstanding" {
                    ctx.fault("answer_for_non_outstanding_peer");
                }
                ctx.ev(format!("t={}ms success {} ({why}) -> [{}]", now_ns / 1_000_000, short(&p), recs.iter().map(|x| format!("{}{}", short(&x.id.raw()), if x.flag { "+" } else { "-" })).collect::<Vec<_>>().join(",")));
                m.success(&NodeId::new(&p), &recs);
                r.note_success(p, &recs);
            }
            8 => {
                let (p, why) = pick_peer(ctx, &r, &u);
                ctx.fault("peer_failure");
                ctx.ev(format!("t={}ms failure {} ({why})", now_ns / 1_000_000, short(&p)));
                m.failure(&NodeId::new(&p));
                r.note_failure(p);
            }
            _ => {
                let d = *ctx.tape.pick(&[1u64, cfg.peer_timeout_ms / 2, cfg.peer_timeout_ms.saturating_sub(1), cfg.peer_timeout_ms, cfg.peer_timeout_ms * 2]);
                if d >= cfg.peer_timeout_ms && !r.outstanding().is_empty() {
                    ctx.fault("silence_until_peer_timeout");
                }
                interpose::advance_manual(d * 1_000_000);
                ctx.ev(format!("t={}ms advance {d}ms", now_ns / 1_000_000));
            }
        }
    }
    if ctx.failed() {
        return;
    }
    // ---- faults stop: every asked peer gets answered; the query must finish within the bound
    if !finished {
        let bound = 2 * (u.ids.len() + cfg.initial.len()) + 8;
        let mut polls = 0;
        loop {
            let now_ns = interpose::manual_now_ns();
            match m.next(Instant::now()) {
                QueryState::Finished => break,
                QueryState::Waiting(Some(p)) => {
                    r.on_ask(ctx, p.raw(), now_ns, "drain");
                    if ctx.failed() {
                        return;
                    }
                    // answer immediately, alternating success without news and failure
                    if polls % 3 == 2 {
                        m.failure(&p);
                        r.note_failure(p.raw());
                    } else {
                        m.success(&p, &[]);
                        r.note_success(p.raw(), &[]);
                    }
                }
                QueryState::Waiting(None) | QueryState::WaitingAtCapacity => {
                    let out = r.outstanding();
                    if out.is_empty() {
                        // nothing outstanding from the harness's view: only peer timeouts can be pending
                        interpose::advance_manual(cfg.peer_timeout_ms * 1_000_000 + 1);
                    }
                    for p in out {
                        m.success(&NodeId::new(&p), &[]);
                        r.note_success(p, &[]);
                    }
                }
            }
            polls += 1;
            if polls > bound {
                ctx.fail("c09.no-termination", format!("direct: query did not finish within {bound} polls after every asked peer had been answered"), &[]);
                return;
            }
        }
        ctx.ev(format!("drain: finished after {polls} polls"));
    }
    let res = m.result();
    ctx.ev(format!("result [{}]", res.iter().map(|n| short(&n.raw())).collect::<Vec<_>>().join(",")));
    r.check_result(ctx, &res, false, "direct");
    let _ = &r.initial;
}

/// The real QueryPool with 1-3 concurrent queries and a query timeout.
pub fn run_pool(ctx: &mut Ctx) {
    interpose::set_clock_manual(0);
    let u = make_universe(ctx);
    let query_timeout_ms = *ctx.tape.pick(&[50u64, 2_000, 60_000]);
    let mut pool: Pool = Pool::new(Duration::from_millis(query_timeout_ms));
    let nq = 1 + ctx.tape.choose(3) as usize;
    let mut refs: BTreeMap<usize, QRef> = BTreeMap::new();
    let mut cfgs: BTreeMap<usize, Cfg> = BTreeMap::new();
    let mut done: BTreeMap<usize, u32> = BTreeMap::new();
    ctx.ev(format!("cfg pool queries={nq} query_timeout={query_timeout_ms}ms universe={}", u.ids.len()));
    for _ in 0..nq {
        let cfg = make_cfg(ctx, &u, true);
        let pt = Duration::from_millis(cfg.peer_timeout_ms);
        let tnode = NodeId::new(&u.target);
        let id = if cfg.predicate {
            query::pool_add_predicate(&mut pool, cfg.parallelism, cfg.num_results, pt, tnode, cfg.initial.iter().map(|(i, f)| (NodeId::new(i), *f)).collect())
        } else {
            query::pool_add_findnode(&mut pool, cfg.parallelism, cfg.num_results, pt, tnode, cfg.initial.iter().map(|(i, _)| NodeId::new(i)).collect())
        };
        ctx.ev(format!("add q{} {} parallelism={} k={} peer_timeout={}ms initial={}", id.0, if cfg.predicate { "predicate" } else { "findnode" }, cfg.parallelism, cfg.num_results, cfg.peer_timeout_ms, cfg.initial.len()));
        refs.insert(id.0, make_ref(&cfg, &u));
        cfgs.insert(id.0, cfg);
    }
    let steps = 10 + ctx.tape.choose(150);
    let mut drain = false;
    let mut drain_polls = 0usize;
    let max_pt = cfgs.values().map(|c| c.peer_timeout_ms).max().unwrap_or(1000);
    let bound = 3 * nq * (2 * u.ids.len() + 8) + 16;
    let mut step = 0;
    // latest possible start of each query's clock: the first poll that certainly examined it (a poll that
    // returned it, or one that went through all queries without finding anything to do)
    let mut started_by: BTreeMap<usize, u64> = BTreeMap::new();
    loop {
        if ctx.failed() {
            return;
        }
        step += 1;
        if !drain && step > steps {
            drain = true;
            ctx.ev("faults stop: draining");
        }
        let now_ns = interpose::manual_now_ns();
        let action = if drain { 0 } else { ctx.tape.choose(10) };
        match action {
            0..=4 => {
                if drain {
                    drain_polls += 1;
                    if drain_polls > bound {
                        ctx.fail("c09.no-termination", format!("pool: {} queries still in the pool {bound} polls after faults stopped", refs.len() - done.len()), &[]);
                        return;
                    }
                }
                enum Polled {
                    Idle,
                    Ask(usize, NodeId),
                    Waiting,
                    Done(usize, Vec<NodeId>, bool),
                }
                let polled = match pool.poll() {
                    QueryPoolState::Idle => Polled::Idle,
                    QueryPoolState::Waiting(Some((q, p))) => Polled::Ask(q.id().0, p),
                    QueryPoolState::Waiting(None) => Polled::Waiting,
                    QueryPoolState::Finished(q) => {
                        let id = q.id().0;
                        Polled::Done(id, q.into_result().closest_peers.collect(), false)
                    }
                    QueryPoolState::Timeout(q) => {
                        let id = q.id().0;
                        Polled::Done(id, q.into_result().closest_peers.collect(), true)
                    }
                };
                match polled {
                    Polled::Idle => {
                        ctx.ev(format!("t={}ms poll -> idle", now_ns / 1_000_000));
                        if drain {
                            break;
                        }
                    }
                    Polled::Ask(qid, p) => {
                        started_by.entry(qid).or_insert(now_ns);
                        ctx.ev(format!("t={}ms poll -> q{qid} ask {}", now_ns / 1_000_000, short(&p.raw())));
                        if let Some(r) = refs.get_mut(&qid) {
                            r.on_ask(ctx, p.raw(), now_ns, "pool");
                            if drain {
                                // (an answer can only be reported to a query the pool still holds: a pool may take a
                                // concluded query out of reach before it hands it over)
                                if let Some(q) = pool.get_mut(query::QueryId(qid)) {
                                    q.on_success(&p, &[]);
                                    r.note_success(p.raw(), &[]);
                                }
                            }
                        }
                    }
                    Polled::Waiting => {
                        ctx.ev(format!("t={}ms poll -> waiting", now_ns / 1_000_000));
                        // this poll examined every query and cut none off: none may be past the query timeout
                        for qid in refs.keys().filter(|k| !done.contains_key(k)) {
                            let s0 = *started_by.entry(*qid).or_insert(now_ns);
                            ctx.count("query_deadline_checks");
                            if now_ns - s0 >= query_timeout_ms * 1_000_000 {
                                ctx.fail(
                                    "c09.query-timeout-not-enforced",
                                    format!("pool: q{qid} has been running for at least {}ms (query timeout {query_timeout_ms}ms), has nothing to send, and a poll left it in the pool", (now_ns - s0) / 1_000_000),
                                    &[],
                                );
                                return;
                            }
                        }
                        if drain {
                            // answer everything outstanding; if nothing is, let time pass
                            let mut any = false;
                            for (qid, r) in refs.iter_mut() {
                                if done.contains_key(qid) {
                                    continue;
                                }
                                for p in r.outstanding() {
                                    if let Some(q) = pool.get_mut(query::QueryId(*qid)) {
                                        q.on_success(&NodeId::new(&p), &[]);
                                        r.note_success(p, &[]);
                                        any = true;
                                    }
                                }
                            }
                            if !any {
                                interpose::advance_manual((max_pt.max(query_timeout_ms) + 1) * 1_000_000);
                            }
                        }
                    }
                    Polled::Done(qid, res, timed_out) => {
                        started_by.entry(qid).or_insert(now_ns);
                        ctx.ev(format!("t={}ms poll -> q{qid} {} [{}]", now_ns / 1_000_000, if timed_out { "TIMEOUT" } else { "finished" }, res.iter().map(|n| short(&n.raw())).collect::<Vec<_>>().join(",")));
                        if timed_out {
                            ctx.count("query_timeouts");
                        }
                        *done.entry(qid).or_insert(0) += 1;
                        if done[&qid] > 1 {
                            ctx.fail("c09.result-delivered-twice", format!("pool: query q{qid} left the pool twice"), &[]);
                            return;
                        }
                        if let Some(r) = refs.get(&qid) {
                            r.check_result(ctx, &res, timed_out, "pool");
                        }
                    }
                }
            }
            5 | 6 | 7 => {
                let live: Vec<usize> = refs.keys().filter(|k| !done.contains_key(k)).copied().collect();
                if live.is_empty() {
                    continue;
                }
                let qid = *ctx.tape.pick(&live);
                let (p, why) = pick_peer(ctx, &refs[&qid], &u);
                let recs = gen_recs(ctx, &u);
                if why != "outstanding" {
                    ctx.fault("answer_for_non_outstanding_peer");
                }
                ctx.ev(format!("t={}ms q{qid} success {} ({why}) +{}", now_ns / 1_000_000, short(&p), recs.len()));
                if let Some(q) = pool.get_mut(query::QueryId(qid)) {
                    q.on_success(&NodeId::new(&p), &recs);
                    refs.get_mut(&qid).unwrap().note_success(p, &recs);
                }
            }
            8 => {
                let live: Vec<usize> = refs.keys().filter(|k| !done.contains_key(k)).copied().collect();
                if live.is_empty() {
                    continue;
                }
                let qid = *ctx.tape.pick(&live);
                let (p, why) = pick_peer(ctx, &refs[&qid], &u);
                ctx.fault("peer_failure");
                ctx.ev(format!("t={}ms q{qid} failure {} ({why})", now_ns / 1_000_000, short(&p)));
                if let Some(q) = pool.get_mut(query::QueryId(qid)) {
                    q.on_failure(&NodeId::new(&p));
                    refs.get_mut(&qid).unwrap().note_failure(p);
                }
            }
            _ => {
                let d = *ctx.tape.pick(&[1u64, 9, 500, max_pt, query_timeout_ms / 2, query_timeout_ms, query_timeout_ms + 1]);
                ctx.fault("silence");
                interpose::advance_manual(d * 1_000_000);
                ctx.ev(format!("t={}ms advance {d}ms", now_ns / 1_000_000));
            }
        }
    }
    if ctx.failed() {
        return;
    }
    for qid in refs.keys() {
        match done.get(qid) {
            Some(1) => {}
            Some(n) => {
                ctx.fail("c09.result-delivered-twice", format!("pool: query q{qid} left the pool {n} times"), &[]);
                return;
            }
            None => {
                ctx.fail("c09.no-termination", format!("pool: query q{qid} never finished or timed out although the pool is idle"), &[]);
                return;
            }
        }
    }
}

