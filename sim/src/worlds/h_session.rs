//! C15 on W-H: sessions expire after `session_timeout` without use and the session cache is bounded
//! (least recently used dropped).

use super::h_traffic::short_id;
use super::hworld::*;
use crate::core::Ctx;
use discv5::verif::{toolkit, HandlerIn, HandlerOut, Message, NodeAddress, PacketKind, Request, RequestBody, Response, WhoAreYouRef};
use discv5::Enr;
use std::collections::BTreeMap;

pub enum X {
    AppWhoAreYou { node: usize, wref: WhoAreYouRef, enr: Option<Enr> },
    AppRespond { node: usize, to: NodeAddress, resp: Response },
    Submit { node: usize, peer: usize },
    /// re-deliver an earlier genuine datagram of a peer to the victim (late duplicate / replay)
    ReplayOld { pick: u32 },
    Idle,
    Crash { node: usize },
    /// an undecryptable packet in a peer's name reaches the victim (it raises a who-are-you query); the victim's
    /// application answers that query only after `answer_after_ms`
    Unsolicited { peer: usize, answer_after_ms: u64 },
}

pub fn run_ttl(ctx: &mut Ctx) {
    block_on(ctx, |ctx| Box::pin(ttl_async(ctx)));
}
pub fn run_capacity(ctx: &mut Ctx) {
    block_on(ctx, |ctx| Box::pin(capacity_async(ctx)));
}
/// Capacity and expiry together: a full cache in which one session expires (its peer possibly gone and
/// possibly looked up once more after expiry) must drop that one, not a live one, when a new peer arrives.
pub fn run_capacity_expiry(ctx: &mut Ctx) {
    block_on(ctx, |ctx| Box::pin(capacity_expiry_async(ctx)));
}

/// Which of `node`'s sessions (index into the key log) does this datagram belong to?
/// `outbound`: encrypted by the node; otherwise decryptable by the node.
fn session_of(w: &HWorld<X>, node: usize, dec: &toolkit::Decoded, outbound: bool) -> Option<usize> {
    let id = w.nodes[node].id;
    for (i, (_, k)) in w.keylog.iter().enumerate() {
        if k.local != id {
            continue;
        }
        let key = if outbound { &k.encryption_key } else { &k.decryption_key };
        if toolkit::decrypt(key, dec.message_nonce, &dec.message, &dec.authenticated_data).is_some() {
            return Some(i);
        }
    }
    None
}

async fn ttl_async(ctx: &mut Ctx) {
    let np = 1 + ctx.tape.choose(3) as usize;
    let session_timeout_ms = *ctx.tape.pick(&[2_000u64, 5_000, 30_000, 120_000]);
    let mut w: HWorld<X> = HWorld::new(u64::MAX / 4);
    let v6 = ctx.tape.choose(5) == 0;
    if v6 {
        ctx.count("ipv6_runs");
    }
    // a quarter of the runs: the victim retransmits (retries 2-3, request timeout 1 s) and its sessions live
    // shorter than a request timeout, while peers sometimes answer only after the first retransmission
    let retx_mode = ctx.tape.choose(4) == 0;
    let session_timeout_ms = if retx_mode { *ctx.tape.pick(&[300u64, 700]) } else { session_timeout_ms };
    for i in 0..=np {
        let mut c = NodeCfg::new(8 + i);
        c.v6 = v6;
        c.request_timeout_ms = 500;
        if i == 0 {
            c.session_timeout_ms = session_timeout_ms;
            if retx_mode {
                c.request_timeout_ms = 1000;
                c.request_retries = 2 + ctx.tape.choose(2) as u8;
            }
        }
        w.add_node(c).await;
    }
    let nsteps = 4 + ctx.tape.choose(14);
    ctx.ev(format!("cfg ttl peers={np} session_timeout={session_timeout_ms}ms steps={nsteps}"));
    // a sequential script: request in one direction, then an idle gap around the timeout
    let mut at: u64 = 0;
    for _ in 0..nsteps {
        let peer = 1 + ctx.tape.choose(np as u32) as usize;
        let (node, p) = if ctx.tape.choose(3) == 0 { (peer, 0) } else { (0, peer) };
        w.schedule(at, Ev::Custom(X::Submit { node, peer: p }));
        if ctx.tape.choose(3) == 0 {
            let pick = ctx.tape.choose(64);
            w.schedule(at + 300, Ev::Custom(X::ReplayOld { pick }));
        }
        // just before the exchange an undecryptable packet in the peer's name arrives; the application is slow to
        // answer the who-are-you query it raises, so the answer comes when the exchange has long set up a session.
        // Answering a query is no use of a session.
        if ctx.tape.choose(5) == 0 {
            let answer_after_ms = *ctx.tape.pick(&[session_timeout_ms / 2, session_timeout_ms.saturating_sub(400), session_timeout_ms.saturating_sub(50), 1500]);
            w.schedule(at.saturating_sub(2), Ev::Custom(X::Unsolicited { peer, answer_after_ms }));
        }
        let gap = match ctx.tape.choose(7) {
            0 => 50,
            1 => session_timeout_ms / 2,
            2 => session_timeout_ms.saturating_sub(700),
            3 => session_timeout_ms + 700,
            4 => session_timeout_ms * 2,
            5 => session_timeout_ms + 1,
            _ => 1200,
        };
        at += 700 + gap;
        if gap > session_timeout_ms {
            ctx.fault("idle_longer_than_session_timeout");
        }
    }
    w.horizon_ms = at + 3000;
    // reference: per peer the time of the last use of any of its (live) sessions, and the key-log
    // index below which that peer's keys belong to an expired generation
    let mut last_used: BTreeMap<[u8; 32], u64> = BTreeMap::new();
    let mut dead_before: BTreeMap<[u8; 32], usize> = BTreeMap::new();
    let mut keys_seen = 0usize;
    let mut next_rid = 1u64;
    let mut slow_query: BTreeMap<[u8; 32], u64> = BTreeMap::new();
    loop {
        if ctx.failed() {
            break;
        }
        let obs = w.next().await;
        w.absorb_keys();
        while keys_seen < w.keylog.len() {
            let (t, k) = &w.keylog[keys_seen];
            if k.local == w.nodes[0].id {
                // a fresh handshake with this peer: if its previous sessions had been idle for longer
                // than the timeout they are gone for good (their keys must never be used again);
                // otherwise this is a re-key of a live session
                let peer = k.remote.raw();
                if let Some(prev) = last_used.get(&peer) {
                    if t.saturating_sub(*prev) > session_timeout_ms + 1 {
                        dead_before.insert(peer, keys_seen);
                        ctx.count("fresh_handshake_after_expiry");
                    }
                }
                last_used.insert(peer, *t);
            }
            keys_seen += 1;
        }
        match obs {
            Obs::Horizon => break,
            Obs::Datagram { from, out } => {
                let wi = w.tap(ctx, from, &out);
                if from == 0 {
                    if let Some(d) = w.wire[wi].dec.clone() {
                        // (a byte-identical retransmission is not a new encryption: no use of the session)
                        let retransmission = w.wire[..wi].iter().any(|r| r.from == 0 && r.bytes == w.wire[wi].bytes);
                        if matches!(d.kind, PacketKind::Message { .. }) && !retransmission {
                            if let Some(s) = session_of(&w, 0, &d, true) {
                                use_session(ctx, &w, &mut last_used, &dead_before, s, session_timeout_ms, "encrypted a message with");
                            } else {
                                ctx.count("random_packets_from_victim");
                            }
                        }
                    }
                }
                w.route(ctx, wi);
            }
            Obs::Sched(Ev::Deliver { to, src, bytes, origin }) => {
                if to == 0 {
                    refresh_on_inbound(&w, &mut last_used, &dead_before, &bytes, session_timeout_ms);
                }
                w.deliver(to, src, bytes, origin);
            }
            Obs::Sched(Ev::Custom(x)) => match x {
                X::Submit { node, peer } => {
                    let id = next_rid;
                    next_rid += 1;
                    ctx.ev(format!("t={} n{node} submit r{id} -> n{peer}", now_ms()));
                    let contact = w.contact(peer, true);
                    w.send_in(node, HandlerIn::Request(contact, Box::new(Request { id: rid(id), body: RequestBody::Ping { enr_seq: 1 } })));
                }
                X::AppWhoAreYou { node, wref, enr } => {
                    w.send_in(node, HandlerIn::WhoAreYou(wref, enr));
                }
                X::AppRespond { node, to, resp } => {
                    w.send_in(node, HandlerIn::Response(to, Box::new(resp)));
                }
                X::ReplayOld { pick } => {
                    let cands: Vec<usize> = w.wire.iter().enumerate().filter(|(_, r)| r.from != 0 && r.dst == w.nodes[0].addr && matches!(&r.dec, Some(d) if matches!(d.kind, PacketKind::Message { .. } | PacketKind::Handshake { .. }))).map(|(i, _)| i).collect();
                    if !cands.is_empty() {
                        let wi = cands[pick as usize % cands.len()];
                        let r = w.wire[wi].clone();
                        // (a replayed handshake answers no outstanding challenge: it is dropped and is no use of any session)
                        ctx.fault(if matches!(&r.dec, Some(d) if matches!(d.kind, PacketKind::Handshake { .. })) { "replay_of_old_handshake" } else { "replay_of_old_datagram" });
                        ctx.ev(format!("t={} REPLAY of datagram #{wi} (emitted at {}ms) to the victim", now_ms(), r.t_ms));
                        refresh_on_inbound(&w, &mut last_used, &dead_before, &r.bytes, session_timeout_ms);
                        w.deliver(0, r.src, r.bytes.clone(), Origin::Mutated { wire: wi, how: "replay" });
                    }
                }
                X::Unsolicited { peer, answer_after_ms } => {
                    ctx.fault("late_answer_to_who_are_you_query");
                    let bytes = toolkit::encode_packet(7, [0x51u8; 12], PacketKind::Message { src_id: w.nodes[peer].id }, vec![0x5a; 44], &w.nodes[0].id);
                    ctx.ev(format!("t={} undecryptable packet in the name of n{peer} at the victim (query answered after {answer_after_ms}ms)", now_ms()));
                    slow_query.insert(w.nodes[peer].id.raw(), answer_after_ms);
                    let src = w.nodes[peer].addr;
                    w.deliver(0, src, bytes, Origin::Injected { tag: "undecryptable" });
                }
                X::Idle | X::Crash { .. } => {}
            },
            Obs::Out { node, ev } => {
                let t = now_ms();
                // a message accepted by V: which session decrypted it?
                if node == 0 {
                    if let HandlerOut::Request(from, _) | HandlerOut::Response(from, _) = &ev {
                        // the carrier is a datagram from that address, delivered just now, that decrypts under one of the
                        // victim's keys to exactly the delivered message (several datagrams may arrive in the same
                        // millisecond, and a peer that crossed handshakes may send one of them under older keys, which the
                        // victim does not accept: only a datagram carrying this very message counts)
                        let enc = match &ev {
                            HandlerOut::Request(_, r) => Message::Request((**r).clone()).encode(),
                            HandlerOut::Response(_, r) => Message::Response((**r).clone()).encode(),
                            _ => unreachable!(),
                        };
                        let vid = w.nodes[0].id;
                        let mut cands: Vec<usize> = vec![];
                        for r in w.inbound[0].iter().rev().take(8).filter(|r| r.src == from.socket_addr && r.t_ms + 3 >= t) {
                            let Ok(d) = toolkit::decode_packet(&vid, &r.bytes) else { continue };
                            for (i, (_, k)) in w.keylog.iter().enumerate() {
                                if k.local == vid && toolkit::decrypt(&k.decryption_key, d.message_nonce, &d.message, &d.authenticated_data).map(|pt| pt == enc).unwrap_or(false) && !cands.contains(&i) {
                                    cands.push(i);
                                }
                            }
                        }
                        // (the same message under several keys: it was accepted under one of them; a violation only if
                        // every possibility is an expired session)
                        let alive = cands.iter().copied().find(|s| {
                            let peer = w.keylog[*s].1.remote.raw();
                            !dead_before.get(&peer).map(|d| *s < *d).unwrap_or(false) && last_used.get(&peer).map(|p| t.saturating_sub(*p) <= session_timeout_ms + 1).unwrap_or(true)
                        });
                        if let Some(s) = alive.or(cands.first().copied()) {
                            use_session(ctx, &w, &mut last_used, &dead_before, s, session_timeout_ms, "accepted a message under");
                        }
                    }
                }
                match ev {
                    HandlerOut::WhoAreYou(wref) => {
                        let enr = w.known_record(&wref.0.node_id);
                        let delay = if node == 0 { slow_query.remove(&wref.0.node_id.raw()).unwrap_or(0) } else { 0 };
                        ctx.ev(format!("t={t} n{node} out WhoAreYou({}) answered in {delay}ms", short_id(&wref.0.node_id)));
                        w.schedule(delay, Ev::Custom(X::AppWhoAreYou { node, wref, enr }));
                    }
                    HandlerOut::Request(from, req) => {
                        // the victim's application is sometimes slow: it answers around (often after) the
                        // moment the session the request came in on has expired
                        let delay = if node == 0 && ctx.tape.choose(5) == 0 {
                            ctx.fault("slow_application_response");
                            *ctx.tape.pick(&[session_timeout_ms / 2, session_timeout_ms.saturating_sub(300), session_timeout_ms + 300, session_timeout_ms * 2])
                        } else if node != 0 && retx_mode && ctx.tape.choose(3) == 0 {
                            ctx.fault("peer_answers_after_retransmission");
                            1300
                        } else {
                            0
                        };
                        for resp in w.default_response(node, &from, &req, 1) {
                            w.schedule(delay, Ev::Custom(X::AppRespond { node, to: from.clone(), resp }));
                        }
                    }
                    HandlerOut::Response(from, r) => ctx.ev(format!("t={t} n{node} out Response r{} from {}", rid_num(&r.id), short_id(&from.node_id))),
                    HandlerOut::RequestFailed(id, e) => ctx.ev(format!("t={t} n{node} out RequestFailed r{} {e:?}", rid_num(&id))),
                    HandlerOut::ExpiredSessions(v) => ctx.ev(format!("t={t} n{node} out ExpiredSessions({})", v.len())),
                    HandlerOut::Established(e, _, d) => ctx.ev(format!("t={t} n{node} out Established({}, {d:?})", short_id(&e.node_id()))),
                    _ => {}
                }
            }
        }
    }
    ctx.sample = Some(serde_json::json!({"peers_with_sessions": last_used.len(), "datagrams": w.wire.len()}));
    w.shutdown();
}

/// A datagram that reaches the victim and decrypts under a live (not expired) session of its
/// sender is a use of that session, whether or not a message is handed to the application
/// (a replayed response is decrypted and then dropped as late).
fn refresh_on_inbound(w: &HWorld<X>, last_used: &mut BTreeMap<[u8; 32], u64>, dead_before: &BTreeMap<[u8; 32], usize>, bytes: &[u8], timeout_ms: u64) {
    let Ok(d) = toolkit::decode_packet(&w.nodes[0].id, bytes) else { return };
    if !matches!(d.kind, PacketKind::Message { .. }) {
        return;
    }
    if let Some(s) = session_of(w, 0, &d, false) {
        let peer = w.keylog[s].1.remote.raw();
        let dead = dead_before.get(&peer).map(|x| s < *x).unwrap_or(false);
        let t = now_ms();
        if !dead && last_used.get(&peer).map(|p| t.saturating_sub(*p) <= timeout_ms).unwrap_or(false) {
            last_used.insert(peer, t);
        }
    }
}

fn use_session(ctx: &mut Ctx, w: &HWorld<X>, last_used: &mut BTreeMap<[u8; 32], u64>, dead_before: &BTreeMap<[u8; 32], usize>, s: usize, timeout_ms: u64, what: &str) {
    let t = now_ms();
    ctx.count("session_uses_checked");
    let peer = w.keylog[s].1.remote.raw();
    if dead_before.get(&peer).map(|d| s < *d).unwrap_or(false) {
        ctx.fail(
            "c15.expired-session-used",
            format!("the victim {what} the keys of a session (#{s}) that had expired (idle longer than {timeout_ms}ms) before the peer's latest handshake"),
            &["keys-of-expired-generation"],
        );
        return;
    }
    if let Some(prev) = last_used.get(&peer) {
        let idle = t.saturating_sub(*prev);
        if idle > timeout_ms + 1 {
            ctx.fail(
                "c15.expired-session-used",
                format!("the victim {what} a session that had been idle for {idle}ms (session timeout {timeout_ms}ms) instead of starting a fresh handshake"),
                &[],
            );
            return;
        }
        if idle > timeout_ms / 2 {
            ctx.count("session_used_after_long_idle_within_timeout");
        }
    }
    last_used.insert(peer, t);
    ctx.ev(format!("t={t} victim session #{s} used ({what})"));
}

async fn capacity_expiry_async(ctx: &mut Ctx) {
    let capacity = 2 + ctx.tape.choose(3) as usize;
    let timeout_ms = *ctx.tape.pick(&[20_000u64, 60_000]);
    let np = capacity + 1;
    let mut w: HWorld<X> = HWorld::new(u64::MAX / 4);
    for i in 0..=np {
        let mut c = NodeCfg::new(8 + i);
        c.request_timeout_ms = 500;
        if i == 0 {
            c.session_capacity = capacity;
            c.session_timeout_ms = timeout_ms;
        }
        w.add_node(c).await;
    }
    // phase 1: fill the cache with peers 1..=capacity in a tape-chosen order
    let mut fill: Vec<usize> = (1..=capacity).collect();
    for i in (1..fill.len()).rev() {
        let j = ctx.tape.choose(i as u32 + 1) as usize;
        fill.swap(i, j);
    }
    let mut at = 0u64;
    for p in &fill {
        let inbound = ctx.tape.choose(3) == 0;
        let (node, q) = if inbound { (*p, 0) } else { (0, *p) };
        w.schedule(at, Ev::Custom(X::Submit { node, peer: q }));
        at += 800;
    }
    // the peer whose session is left to expire; it may disappear, and the victim may look it up again afterwards
    let dead = 1 + ctx.tape.choose(capacity as u32) as usize;
    let crashes = ctx.tape.choose(3) != 0;
    let looked_up_after_expiry = ctx.tape.choose(3) != 0;
    if crashes {
        w.schedule(at, Ev::Custom(X::Crash { node: dead }));
    }
    // phase 2: the others are kept in use (every timeout/3) until the idle one is well past its timeout
    let keep: Vec<usize> = fill.iter().copied().filter(|p| *p != dead).collect();
    let mut order: Vec<usize> = keep.clone();
    let rounds = 4;
    for _ in 0..rounds {
        at += timeout_ms / 3;
        let mut t = at;
        for p in &keep {
            w.schedule(t, Ev::Custom(X::Submit { node: 0, peer: *p }));
            order.push(*p);
            t += 700;
        }
        at = t;
    }
    if looked_up_after_expiry {
        ctx.fault("expired_session_looked_up");
        w.schedule(at + 100, Ev::Custom(X::Submit { node: 0, peer: dead }));
        if !crashes {
            // the peer is there: a fresh handshake completes and its new session is the most recent one
            order.push(dead);
        }
        at += 1500;
    }
    // phase 3: a new peer arrives at the full cache
    let newcomer = np;
    let inbound = ctx.tape.choose(2) == 0;
    let (node, q) = if inbound { (newcomer, 0) } else { (0, newcomer) };
    w.schedule(at + 200, Ev::Custom(X::Submit { node, peer: q }));
    order.push(newcomer);
    at += 1200;
    let mut mru: Vec<usize> = vec![];
    for p in order.iter().rev() {
        if !mru.contains(p) {
            mru.push(*p);
        }
    }
    ctx.ev(format!("cfg capacity={capacity} session_timeout={timeout_ms}ms fill={fill:?} idle_peer=n{dead} crashes={crashes} looked_up_after_expiry={looked_up_after_expiry} mru={mru:?}"));
    ctx.fault("session_expires_in_full_cache");
    if crashes {
        ctx.fault("peer_crash");
    }
    let probe_start = at + 500;
    for (k, p) in mru.iter().enumerate() {
        w.schedule(probe_start + 800 * k as u64, Ev::Custom(X::Submit { node: 0, peer: *p }));
    }
    w.horizon_ms = probe_start + 800 * mru.len() as u64 + 2000;
    capacity_loop(ctx, w, capacity, probe_start).await;
}

async fn capacity_async(ctx: &mut Ctx) {
    let capacity = 1 + ctx.tape.choose(5) as usize;
    let np = 2 + ctx.tape.choose(6) as usize;
    let mut w: HWorld<X> = HWorld::new(u64::MAX / 4);
    for i in 0..=np {
        let mut c = NodeCfg::new(8 + i);
        c.request_timeout_ms = 500;
        if i == 0 {
            c.session_capacity = capacity;
        }
        w.add_node(c).await;
    }
    // sequential exchanges (each completes before the next starts), so "recently used" is unambiguous
    // any order with revisits at any fill level of the cache (also while it is still below capacity);
    // peers that never got their turn are appended so that everyone has a session at some point
    let nx = np + ctx.tape.choose(10) as usize;
    let mut seq: Vec<usize> = (0..nx).map(|_| 1 + ctx.tape.choose(np as u32) as usize).collect();
    for p in 1..=np {
        if !seq.contains(&p) {
            seq.push(p);
        }
    }
    let nx = seq.len();
    let mut order: Vec<usize> = vec![];
    let mut at = 0u64;
    for k in 0..nx {
        let peer = seq[k];
        let inbound = ctx.tape.choose(3) == 0;
        let (node, p) = if inbound { (peer, 0) } else { (0, peer) };
        w.schedule(at, Ev::Custom(X::Submit { node, peer: p }));
        order.push(peer);
        // between two exchanges an old handshake datagram of some peer sometimes reaches the victim again (a late
        // duplicate): it answers nothing and is no use of that peer's session
        if ctx.tape.choose(4) == 0 {
            let pick = ctx.tape.choose(64);
            w.schedule(at + 600, Ev::Custom(X::ReplayOld { pick }));
        }
        at += 800;
    }
    // recency order (most recent first), distinct
    let mut mru: Vec<usize> = vec![];
    for p in order.iter().rev() {
        if !mru.contains(p) {
            mru.push(*p);
        }
    }
    ctx.ev(format!("cfg capacity={capacity} peers={np} exchanges={order:?} mru={mru:?}"));
    if np > capacity {
        ctx.fault("more_peers_than_session_capacity");
    }
    // probe phase: V pings every peer, most recently used first
    let probe_start = at + 1000;
    for (k, p) in mru.iter().enumerate() {
        w.schedule(probe_start + 800 * k as u64, Ev::Custom(X::Submit { node: 0, peer: *p }));
    }
    w.horizon_ms = probe_start + 800 * mru.len() as u64 + 2000;
    capacity_loop(ctx, w, capacity, probe_start).await;
}

async fn capacity_loop(ctx: &mut Ctx, mut w: HWorld<X>, capacity: usize, probe_start: u64) {
    let mut next_rid = 1u64;
    let mut probing: Option<(usize, usize)> = None; // (rank, peer)
    let mut probe_rank = 0usize;
    loop {
        if ctx.failed() {
            break;
        }
        let obs = w.next().await;
        w.absorb_keys();
        match obs {
            Obs::Horizon => break,
            Obs::Datagram { from, out } => {
                let wi = w.tap(ctx, from, &out);
                if from == 0 {
                    if let (Some((rank, peer)), Some(d)) = (probing, w.wire[wi].dec.clone()) {
                        if w.nodes[peer].addr == out.0 && matches!(d.kind, PacketKind::Message { .. }) {
                            let alive = session_of(&w, 0, &d, true).is_some();
                            ctx.ev(format!("t={} probe rank {rank} n{peer}: session {}", now_ms(), if alive { "alive" } else { "absent (random packet)" }));
                            ctx.count("capacity_probes");
                            if rank < capacity && !alive {
                                ctx.fail("c15.recent-session-evicted", format!("capacity {capacity}: the session with n{peer} (rank {rank} in recency) was dropped although less recently used sessions fit"), &[]);
                            }
                            if rank >= capacity && alive {
                                ctx.fail("c15.capacity-exceeded", format!("capacity {capacity}: the session with n{peer} (rank {rank} in recency) is still held, so more than {capacity} sessions were kept"), &[]);
                            }
                            probing = None;
                        }
                    }
                }
                w.route(ctx, wi);
            }
            Obs::Sched(Ev::Deliver { to, src, bytes, origin }) => {
                if w.nodes[to].alive {
                    w.deliver(to, src, bytes, origin);
                }
            }
            Obs::Sched(Ev::Custom(x)) => match x {
                X::Crash { node } => {
                    ctx.ev(format!("t={} CRASH n{node}", now_ms()));
                    w.crash(node);
                }
                X::Submit { node, peer } => {
                    if !w.nodes[node].alive {
                        continue;
                    }
                    let id = next_rid;
                    next_rid += 1;
                    if now_ms() >= probe_start && node == 0 {
                        probing = Some((probe_rank, peer));
                        probe_rank += 1;
                    }
                    ctx.ev(format!("t={} n{node} submit r{id} -> n{peer}", now_ms()));
                    let contact = w.contact(peer, true);
                    w.send_in(node, HandlerIn::Request(contact, Box::new(Request { id: rid(id), body: RequestBody::Ping { enr_seq: 1 } })));
                }
                X::AppWhoAreYou { node, wref, enr } => {
                    w.send_in(node, HandlerIn::WhoAreYou(wref, enr));
                }
                X::AppRespond { node, to, resp } => {
                    w.send_in(node, HandlerIn::Response(to, Box::new(resp)));
                }
                X::ReplayOld { pick } => {
                    let cands: Vec<usize> = w.wire.iter().enumerate().filter(|(_, r)| r.from != 0 && r.dst == w.nodes[0].addr && matches!(&r.dec, Some(d) if matches!(d.kind, PacketKind::Handshake { .. }))).map(|(i, _)| i).collect();
                    if !cands.is_empty() {
                        let wi = cands[pick as usize % cands.len()];
                        let r = w.wire[wi].clone();
                        ctx.fault("replay_of_old_handshake");
                        ctx.ev(format!("t={} REPLAY of handshake #{wi} (emitted at {}ms) to the victim", now_ms(), r.t_ms));
                        w.deliver(0, r.src, r.bytes.clone(), Origin::Mutated { wire: wi, how: "replay" });
                    }
                }
                X::Idle | X::Unsolicited { .. } => {}
            },
            Obs::Out { node, ev } => match ev {
                HandlerOut::WhoAreYou(wref) => {
                    let enr = w.known_record(&wref.0.node_id);
                    w.schedule(0, Ev::Custom(X::AppWhoAreYou { node, wref, enr }));
                }
                HandlerOut::Request(from, req) => {
                    for resp in w.default_response(node, &from, &req, 1) {
                        w.schedule(0, Ev::Custom(X::AppRespond { node, to: from.clone(), resp }));
                    }
                }
                _ => {}
            },
        }
    }
    ctx.nontrivial = true;
    w.shutdown();
}
