//! W-S scenarios for what the service serves and decides on its own:
//! C14 (FINDNODE / PING answers), C17 (external address by PONG majority), C20 (TALK exactly once).

use super::sworld::*;
use super::table::log2;
use crate::{core::Ctx, ident};
use discv5::{
    enr::NodeId,
    verif::{toolkit, ConnectionDirection, HandlerIn, HandlerOut, NodeAddress, PacketKind, Request, RequestBody, RequestId, Response, ResponseBody},
    Enr, Event, ListenConfig, TalkRequest,
};
use std::{
    collections::{BTreeMap, BTreeSet},
    net::{IpAddr, Ipv4Addr, SocketAddr},
    time::Duration,
};

fn v4_listen() -> ListenConfig {
    ListenConfig::Ipv4 { ip: Ipv4Addr::new(10, 1, 0, 250), port: 9000 }
}

/// Answer every PING the service has sent with an honest PONG (handler contract), return other requests.
async fn answer_pings(sw: &mut SWorld) -> Vec<HandlerIn> {
    let mut rest = vec![];
    for m in sw.take_in() {
        match m {
            HandlerIn::Request(contact, req) if matches!(req.body, RequestBody::Ping { .. }) => {
                let la = sw.local_addr;
                let port = std::num::NonZeroU16::new(la.port()).unwrap();
                let resp = Response { id: req.id, body: ResponseBody::Pong { enr_seq: 1, ip: la.ip(), port } };
                sw.emit(HandlerOut::Response(contact.node_address(), Box::new(resp))).await;
            }
            other => rest.push(other),
        }
    }
    rest
}

// ------------------------------------------------------------------------------------------ C14

pub fn run_c14(ctx: &mut Ctx) {
    block_on(ctx, |ctx| Box::pin(c14_async(ctx)));
}

fn big_record(identity: usize) -> Enr {
    // pad the record up to the 300-byte limit
    let base = peer_enr(identity, 1).size();
    let mut pad = 300usize.saturating_sub(base + 6) as u16;
    loop {
        let mut spec = peer_spec(identity, 1);
        spec.pad = pad;
        if let Some(e) = ident::try_record(spec) {
            return e;
        }
        pad -= 1;
    }
}

async fn c14_async(ctx: &mut Ctx) {
    let max_nodes = *ctx.tape.pick(&[16usize, 1, 4, 32, 48]);
    // a fifth of the nodes advertise no socket in their own record (started without an external address, or
    // after the connectivity check revoked it): they answer requests all the same, with that record for distance 0
    let advertise = ctx.tape.choose(5) != 0;
    if !advertise {
        ctx.count("runs_with_unadvertised_local_socket");
    }
    // a quarter of the nodes listen dual-stack (the observed source of a request, IPv4-mapped or not, is what the
    // answer is addressed to and what a PONG reports)
    let dual14 = ctx.tape.choose(4) == 0;
    let listen = if dual14 { ListenConfig::DualStack { ipv4: Ipv4Addr::new(10, 1, 0, 250), ipv4_port: 9000, ipv6: std::net::Ipv6Addr::new(0x2001, 0, 0, 0, 0, 0, 0, 0xfa), ipv6_port: 9000 } } else { v4_listen() };
    let mut sw = match SWorld::new(0, advertise, listen, |b| {
        b.max_nodes_response(max_nodes).disable_enr_update();
    })
    .await
    {
        Ok(s) => s,
        Err(e) => {
            ctx.fail("harness-error", e, &[]);
            return;
        }
    };
    // table size: usually up to 61 peers, sometimes so many that three or four buckets are full
    let n = if ctx.tape.choose(4) == 0 { 100 + ctx.tape.choose(76) as usize } else { 2 + ctx.tape.choose(60) as usize };
    // record sizes: 0 plain (~150 bytes), 1 all padded to the 300-byte limit, 2 every size in between (byte granularity)
    let sizes = ctx.tape.choose(4).min(2);
    ctx.ev(format!("cfg max_nodes_response={max_nodes} peers={n} record_sizes={}", ["plain", "maximal", "mixed"][sizes as usize]));
    let peers: Vec<usize> = (8..8 + n).collect();
    for &p in &peers {
        let enr = match sizes {
            1 => big_record(p),
            2 => {
                let mut spec = peer_spec(p, 1);
                spec.pad = ctx.tape.choose(150) as u16;
                ident::try_record(spec).unwrap_or_else(|| peer_enr(p, 1))
            }
            _ => peer_enr(p, 1),
        };
        sw.emit(HandlerOut::Established(enr, peer_addr(p), if p % 3 == 0 { ConnectionDirection::Incoming } else { ConnectionDirection::Outgoing })).await;
        if p % 8 == 0 {
            sw.settle().await;
            answer_pings(&mut sw).await;
        }
    }
    sw.settle().await;
    answer_pings(&mut sw).await;
    sw.settle().await;
    let _ = sw.take_events();
    let nreq = 3 + ctx.tape.choose(12);
    let mut next_bump = 0u8;
    for _ in 0..nreq {
        if ctx.failed() {
            break;
        }
        // requester: a table peer (present in its own bucket) or a stranger
        let requester = if ctx.tape.choose(3) == 0 { 150 + ctx.tape.choose(20) as usize } else { *ctx.tape.pick(&peers) };
        let port = if ctx.tape.choose(8) == 0 { 0 } else { 9000 + ctx.tape.choose(3) as u16 };
        // the observed source: an IPv4 address, an IPv6 address or an IPv4-mapped IPv6 address (the last two as
        // a dual-stack socket reports them); ports from the whole range
        let port = if port != 0 && ctx.tape.choose(4) == 0 { *ctx.tape.pick(&[1u16, 80, 1023, 30303, 65535]) } else { port };
        let v4 = Ipv4Addr::new(10, 7, 7, 1 + ctx.tape.choose(3) as u8);
        let src_ip = match ctx.tape.choose(6) {
            0 => IpAddr::V6(std::net::Ipv6Addr::new(0xfd00, 0, 0, 0, 0, 0, 7, 1 + ctx.tape.choose(3) as u16)),
            1 => IpAddr::V6(v4.to_ipv6_mapped()),
            _ => IpAddr::V4(v4),
        };
        let na = NodeAddress { node_id: peer_id(requester), socket_addr: SocketAddr::new(src_ip, port) };
        let idlen = ctx.tape.choose(9) as usize;
        let rid = RequestId((0..idlen).map(|i| (0x40 + i) as u8).collect());
        let is_ping = ctx.tape.choose(4) == 0;
        let _ = answer_pings(&mut sw).await;
        if is_ping {
            // the local record sometimes changes first: the PONG must carry the sequence number current then
            if ctx.tape.choose(4) == 0 {
                let _ = sw.d.enr_insert("c14", &vec![now_ms() as u8, next_bump]);
                next_bump = next_bump.wrapping_add(1);
                ctx.count("local_record_updates");
            }
            ctx.ev(format!("t={} PING from #{requester} {} id_len={idlen} (local seq {})", now_ms(), na.socket_addr, sw.d.local_enr().seq()));
            sw.emit(HandlerOut::Request(na.clone(), Box::new(Request { id: rid.clone(), body: RequestBody::Ping { enr_seq: 1 } }))).await;
            sw.settle().await;
            let rest = answer_pings(&mut sw).await;
            let pongs: Vec<&Response> = rest.iter().filter_map(|m| if let HandlerIn::Response(to, r) = m { if *to == na && r.id == rid { Some(&**r) } else { None } } else { None }).collect();
            ctx.count("pings_checked");
            if port == 0 {
                if !pongs.is_empty() {
                    ctx.fail("c14.pong-to-port-zero", "a PING observed from source port 0 was answered", &[]);
                }
                continue;
            }
            if pongs.len() != 1 {
                ctx.fail("c14.ping-not-answered-once", format!("PING from {} got {} PONGs", na.socket_addr, pongs.len()), &[]);
                continue;
            }
            match &pongs[0].body {
                ResponseBody::Pong { enr_seq, ip, port: p } => {
                    if *enr_seq != sw.d.local_enr().seq() || *ip != na.socket_addr.ip() || p.get() != port {
                        ctx.fail("c14.wrong-pong", format!("PONG carries seq {enr_seq} ip {ip} port {p}; local seq {}, observed {}", sw.d.local_enr().seq(), na.socket_addr), &[]);
                    }
                }
                other => ctx.fail("c14.wrong-pong", format!("PING answered with {other}"), &[]),
            }
            continue;
        }
        // ---- FINDNODE
        let nd = ctx.tape.choose(7) as usize;
        let mut distances: Vec<u64> = vec![];
        for _ in 0..nd {
            distances.push(match ctx.tape.choose(8) {
                0 => 0,
                1 | 2 => 256,
                3 => 255,
                4 => 254,
                5 => 253,
                6 => 252 - ctx.tape.choose(4) as u64,
                _ => 1 + ctx.tape.choose(256) as u64,
            });
        }
        // long lists: every distance there is (in some order, with or without 0, duplicates, out-of-range values)
        if ctx.tape.choose(8) == 0 {
            let lo = ctx.tape.choose(3) as u64; // 0, 1, 2
            let hi = 256 - ctx.tape.choose(3).saturating_sub(1) as u64; // 256, 256, 255
            distances = (lo..=hi).collect();
            match ctx.tape.choose(4) {
                0 => distances.reverse(),
                1 => {
                    let k = 1 + ctx.tape.choose(200) as usize;
                    distances.rotate_left(k);
                }
                _ => {}
            }
            for _ in 0..ctx.tape.choose(4) {
                let extra = *ctx.tape.pick(&[257u64, 300, 1000, u64::MAX, 0, 256, 128]);
                let at = ctx.tape.choose(distances.len() as u32 + 1) as usize;
                distances.insert(at, extra);
            }
            ctx.count("findnode_long_lists");
        }
        let dshow = if distances.len() > 12 {
            let inr: BTreeSet<u64> = distances.iter().copied().filter(|d| *d <= 256).collect();
            format!("[{} entries, {} distinct in range, min {:?} max {:?}, first {:?} last {:?}]", distances.len(), inr.len(), inr.iter().next(), inr.iter().next_back(), distances.first(), distances.last())
        } else {
            format!("{distances:?}")
        };
        ctx.ev(format!("t={} FINDNODE {dshow} from #{requester} id_len={idlen}", now_ms()));
        sw.emit(HandlerOut::Request(na.clone(), Box::new(Request { id: rid.clone(), body: RequestBody::FindNode { distances: distances.clone() } }))).await;
        sw.settle().await;
        let rest = answer_pings(&mut sw).await;
        let resps: Vec<Response> = rest.into_iter().filter_map(|m| if let HandlerIn::Response(to, r) = m { if to == na { Some(*r) } else { None } } else { None }).collect();
        ctx.count("findnode_checked");
        // expected
        let table: Vec<(NodeId, Enr)> = sw.d.table_entries().into_iter().map(|(i, e, _)| (i, e)).collect();
        let lid = sw.local_id;
        let dset: BTreeSet<u64> = distances.iter().copied().collect();
        let eligible_all: Vec<&(NodeId, Enr)> = table.iter().filter(|(i, _)| dset.contains(&(log2(&lid.raw(), &i.raw()) as u64))).collect();
        let requester_eligible = eligible_all.iter().any(|(i, _)| *i == na.node_id);
        let want_local = dset.contains(&0);
        if resps.is_empty() {
            ctx.fail("c14.findnode-not-answered", format!("FINDNODE {dshow} got no NODES response"), &[]);
            continue;
        }
        let total = resps.len() as u64;
        let mut got: Vec<Enr> = vec![];
        for (k, r) in resps.iter().enumerate() {
            if r.id != rid {
                ctx.fail("c14.wrong-request-id", format!("NODES packet {k} carries id {} instead of {}", r.id, rid), &[]);
            }
            match &r.body {
                ResponseBody::Nodes { total: t, nodes } => {
                    if *t != total {
                        ctx.fail("c14.wrong-total", format!("NODES packet {k} announces total {t}, {total} packets were sent"), &[]);
                    }
                    got.extend(nodes.iter().cloned());
                }
                other => ctx.fail("c14.wrong-response-kind", format!("FINDNODE answered with {other}"), &[]),
            }
            // wire size with the real codec and AES-GCM
            let kind = PacketKind::Message { src_id: lid };
            let nonce = [7u8; 12];
            let aad = toolkit::authenticated_data(5, nonce, kind.clone());
            if let Some(ct) = toolkit::encrypt(&[3u8; 16], nonce, &r.clone().encode(), &aad) {
                let bytes = toolkit::encode_packet(5, nonce, kind, ct, &na.node_id);
                if bytes.len() > 1280 {
                    ctx.fail("c14.packet-too-large", format!("NODES packet {k} of {total} is {} bytes on the wire ({} records)", bytes.len(), match &r.body { ResponseBody::Nodes { nodes, .. } => nodes.len(), _ => 0 }), &[]);
                }
                if bytes.len() > 1100 {
                    ctx.count("packets_over_1100_bytes");
                }
            }
        }
        if ctx.failed() {
            break;
        }
        let got_ids: Vec<NodeId> = got.iter().map(|e| e.node_id()).collect();
        let mut uniq = got_ids.clone();
        uniq.sort_by_key(|i| i.raw());
        uniq.dedup();
        if uniq.len() != got_ids.len() {
            ctx.fail("c14.duplicate-record", "a record was returned twice", &[]);
            continue;
        }
        if got_ids.contains(&na.node_id) {
            ctx.fail("c14.requester-returned", "the requester's own record was returned to it", &[]);
            continue;
        }
        let got_local = got_ids.contains(&lid);
        if got_local != want_local {
            ctx.fail("c14.local-record", format!("own record returned: {got_local}, distance 0 requested: {want_local}"), &[]);
            continue;
        }
        let mut foreign = 0;
        for (e, id) in got.iter().zip(got_ids.iter()) {
            if *id == lid {
                continue;
            }
            foreign += 1;
            match table.iter().find(|(i, _)| i == id) {
                Some((_, stored)) if stored == e && dset.contains(&(log2(&lid.raw(), &id.raw()) as u64)) => {}
                Some(_) => {
                    ctx.fail("c14.record-not-at-requested-distance", format!("returned record {} is at log2 distance {} (requested {dshow}) or differs from the stored record", short(id), log2(&lid.raw(), &id.raw())), &[]);
                }
                None => ctx.fail("c14.record-not-in-table", format!("returned record {} is not a table entry", short(id)), &[]),
            }
        }
        if ctx.failed() {
            break;
        }
        let n_all = eligible_all.len();
        let ok_count = if n_all <= max_nodes {
            foreign == n_all - requester_eligible as usize
        } else {
            foreign == max_nodes || (requester_eligible && foreign == max_nodes - 1)
        };
        if !ok_count {
            ctx.fail(
                "c14.wrong-number-of-records",
                format!("{foreign} table records returned; {n_all} entries sit at the requested distances (requester among them: {requester_eligible}), max_nodes_response {max_nodes}"),
                &[],
            );
        }
        if n_all > max_nodes {
            ctx.count("responses_capped_by_max_nodes");
        }
    }
    ctx.nontrivial = true;
    sw.shutdown();
}

// ------------------------------------------------------------------------------------------ C17

pub fn run_c17(ctx: &mut Ctx) {
    block_on(ctx, |ctx| Box::pin(c17_async(ctx)));
}

async fn c17_async(ctx: &mut Ctx) {
    let min = 2 + ctx.tape.choose(5) as usize;
    let vote_s = *ctx.tape.pick(&[30u64, 120, 8]);
    let advertise = ctx.tape.choose(2) == 0;
    let dual = ctx.tape.choose(3) == 0;
    // the connectivity check (which revokes an elected socket nobody connects to) runs in a quarter of the
    // single-stack runs and in half of the dual-stack ones, where the other family's tally must survive it
    let nat = ctx.tape.choose(if dual { 2 } else { 4 }) == 0;
    let listen = if dual { ListenConfig::DualStack { ipv4: Ipv4Addr::new(10, 1, 0, 250), ipv4_port: 9000, ipv6: std::net::Ipv6Addr::new(0x2001, 0, 0, 0, 0, 0, 0, 0xfa), ipv6_port: 9000 } } else { v4_listen() };
    let mut sw = match SWorld::new(0, advertise, listen, |b| {
        b.enr_peer_update_min(min).vote_duration(Duration::from_secs(vote_s)).ping_interval(Duration::from_secs(1)).auto_nat_listen_duration(if nat { Some(Duration::from_secs(20)) } else { None });
    })
    .await
    {
        Ok(s) => s,
        Err(e) => {
            ctx.fail("harness-error", e, &[]);
            return;
        }
    };
    let nv = 2 + ctx.tape.choose(11) as usize;
    let voters: Vec<usize> = (8..8 + nv).collect();
    let mut outgoing: BTreeMap<usize, bool> = BTreeMap::new();
    let incoming_pct = *ctx.tape.pick(&[0u32, 25, 60]);
    for &v in &voters {
        let out = ctx.tape.choose(100) >= incoming_pct;
        outgoing.insert(v, out);
        sw.establish(v, 1, if out { ConnectionDirection::Outgoing } else { ConnectionDirection::Incoming }).await;
    }
    let mut cands: Vec<SocketAddr> = vec![
        SocketAddr::new(IpAddr::V4(Ipv4Addr::new(198, 51, 100, 7)), 9000),
        SocketAddr::new(IpAddr::V4(Ipv4Addr::new(198, 51, 100, 7)), 9001),
        SocketAddr::new(IpAddr::V4(Ipv4Addr::new(203, 0, 113, 9)), 30303),
    ];
    if dual {
        cands.push(SocketAddr::new(IpAddr::V6(std::net::Ipv6Addr::new(0x2001, 0xdb8, 0, 0, 0, 0, 0, 7)), 9000));
        cands.push(SocketAddr::new(IpAddr::V6(std::net::Ipv6Addr::new(0x2001, 0xdb8, 0, 0, 0, 0, 0, 7)), 9009));
    }
    let nc = cands.len() as u32;
    // each voter's current opinion; changes now and then
    let mut opinion: BTreeMap<usize, usize> = BTreeMap::new();
    let liars = ctx.tape.choose((min as u32).min(nv as u32)) as usize; // fewer liars than the minimum
    for (k, &v) in voters.iter().enumerate() {
        opinion.insert(v, if k < liars { 2 } else if dual && ctx.tape.choose(2) == 0 { 3 + ctx.tape.choose(2) as usize } else { ctx.tape.choose(2) as usize });
    }
    ctx.ev(format!("cfg dual_stack={dual} min={min} vote_duration={vote_s}s voters={nv} outgoing={:?} liars={liars} advertise={advertise} nat_check={nat}", outgoing.values().collect::<Vec<_>>()));
    // reference ledger: eligible voter -> (address, time of vote)
    // (a peer holds one opinion per address family: a v4 vote does not replace its v6 vote)
    let mut votes: BTreeMap<(usize, bool), (SocketAddr, u64)> = BTreeMap::new();
    // dual stack: whether an incoming peer's PONG is counted depends on how many votes are missing
    // at that moment, so any of its unexpired PONGs may be the one on record
    let mut incoming_pongs: Vec<(usize, SocketAddr, u64)> = vec![];
    let socks = |e: &Enr| -> (Option<SocketAddr>, Option<SocketAddr>) { (e.udp4_socket().map(SocketAddr::V4), e.udp6_socket().map(SocketAddr::V6)) };
    let mut last_sock = socks(&sw.d.local_enr());
    let mut last_seq = sw.d.local_enr().seq();
    let mut held: Vec<(RequestId, usize, NodeAddress)> = vec![];
    let mut held_find: Vec<(RequestId, usize, NodeAddress)> = vec![];
    let mut voter_seq: BTreeMap<usize, u64> = BTreeMap::new();
    let rounds = 10 + ctx.tape.choose(60);
    let mut socket_updated_events = 0u64;
    let mut changes_to_some = 0u64;
    let mut reachable: BTreeMap<usize, bool> = BTreeMap::new();
    let mut revoked = (false, false);
    for _ in 0..rounds {
        if ctx.failed() {
            break;
        }
        match ctx.tape.choose(6) {
            0 => {
                let ms = *ctx.tape.pick(&[300u64, 1000, 2500, vote_s * 500, vote_s * 1000]);
                tokio::time::sleep(Duration::from_millis(ms)).await;
                ctx.ev(format!("t={} idle {ms}ms", now_ms()));
            }
            1 => {
                // somebody changes their mind
                let v = *ctx.tape.pick(&voters);
                let o = ctx.tape.choose(nc) as usize;
                opinion.insert(v, o);
                ctx.fault("voter_changes_vote");
            }
            3 => {
                // the application overrides the advertised UDP socket by hand (not a vote-driven change: no event is
                // owed for it); a later vote-driven change back to an address announced before must be announced again
                let w: SocketAddr = "192.0.2.200:9999".parse().unwrap();
                let r = sw.d.update_local_enr_socket(w, false);
                ctx.fault("user_overrides_advertised_socket");
                ctx.ev(format!("t={} update_local_enr_socket({w}) -> {r}", now_ms()));
                let enr = sw.d.local_enr();
                last_sock = socks(&enr);
                last_seq = enr.seq();
            }
            2 => {
                // a PING goes unanswered: the peer is marked disconnected, its earlier (unexpired) vote stands
                if !held.is_empty() {
                    let k = ctx.tape.choose(held.len() as u32) as usize;
                    let (rid, voter, _) = held.remove(k);
                    reachable.insert(voter, false);
                    ctx.fault("voter_stops_answering");
                    ctx.ev(format!("t={} PING to #{voter} times out", now_ms()));
                    sw.emit(HandlerOut::RequestFailed(rid, discv5::RequestError::Timeout)).await;
                    sw.settle().await;
                }
            }
            4 => {
                // a voter publishes a new record: its next PONG announces the higher sequence number and the node
                // asks it for the record (FINDNODE [0])
                let v = *ctx.tape.pick(&voters);
                *voter_seq.entry(v).or_insert(1) += 1;
                ctx.fault("voter_updates_its_record");
            }
            5 => {
                // a voter answers a record request of the node with a NODES response (not a vote, and no reason to
                // treat the votes it cast earlier any differently)
                if !held_find.is_empty() {
                    let k = ctx.tape.choose(held_find.len() as u32) as usize;
                    let (rid, voter, from) = held_find.remove(k);
                    let rec = peer_enr(voter, voter_seq.get(&voter).copied().unwrap_or(1));
                    ctx.fault("voter_answers_record_request");
                    ctx.ev(format!("t={} NODES from #{voter} (its record, seq {})", now_ms(), rec.seq()));
                    sw.emit(HandlerOut::Response(from, Box::new(Response { id: rid, body: ResponseBody::Nodes { total: 1, nodes: vec![rec] } }))).await;
                    sw.settle().await;
                }
            }
            _ => {}
        }
        sw.settle().await;
        for m in sw.take_in() {
            if let HandlerIn::Request(contact, req) = m {
                match (ident_of(&contact.node_id()), &req.body) {
                    (Some(p), RequestBody::Ping { .. }) => held.push((req.id, p, contact.node_address())),
                    // record requests (FINDNODE [0]) are answered now and then, see above; a request that stays
                    // unanswered is not modelled further
                    (Some(p), RequestBody::FindNode { .. }) => held_find.push((req.id, p, contact.node_address())),
                    _ => {}
                }
            }
        }
        // answer one held PING
        if held.is_empty() {
            tokio::time::sleep(Duration::from_millis(400)).await;
            continue;
        }
        let k = ctx.tape.choose(held.len() as u32) as usize;
        let (rid, voter, from) = held.remove(k);
        let addr = cands[opinion[&voter]];
        let t = now_ms();
        let port = std::num::NonZeroU16::new(addr.port()).unwrap();
        let resp = Response { id: rid, body: ResponseBody::Pong { enr_seq: voter_seq.get(&voter).copied().unwrap_or(1), ip: addr.ip(), port } };
        sw.emit(HandlerOut::Response(from, Box::new(resp))).await;
        sw.settle().await;
        ctx.ev(format!("t={t} PONG from #{voter} ({}) votes {addr}", if outgoing[&voter] { "outgoing" } else { "incoming" }));
        // a vote counts when the voter is a connected outgoing peer at the moment its PONG arrives; a peer
        // whose last request failed is disconnected until a PONG of its has been processed
        let was_reachable = reachable.get(&voter).copied().unwrap_or(true);
        reachable.insert(voter, true);
        if outgoing[&voter] && was_reachable {
            votes.insert((voter, addr.is_ipv6()), (addr, t));
        } else if dual {
            incoming_pongs.push((voter, addr, t));
            // if this PONG was counted it replaced the voter's earlier vote of that family: that one is no longer
            // certain to stand either
            if let Some((old, told)) = votes.remove(&(voter, addr.is_ipv6())) {
                incoming_pongs.push((voter, old, told));
            }
        }
        if !outgoing[&voter] {
            ctx.fault("vote_from_incoming_peer");
        }
        let mut announced: Vec<SocketAddr> = vec![];
        for e in sw.take_events() {
            if let Event::SocketUpdated(a) = e {
                socket_updated_events += 1;
                announced.push(a);
            }
        }
        let enr = sw.d.local_enr();
        let sock = socks(&enr);
        // whatever is announced must be an address the record now advertises
        for a in &announced {
            if sock.0 != Some(*a) && sock.1 != Some(*a) {
                ctx.fail("c17.announced-address-not-in-record", format!("SocketUpdated announced {a} but the local record advertises {:?}", sock), &[]);
            }
        }
        if sock != last_sock {
            // an advertised socket that disappears was revoked by the connectivity check (nothing else removes one
            // here): votes of that family are not counted for hours afterwards, the reference stops following it
            if last_sock.0.is_some() && sock.0.is_none() {
                revoked.0 = true;
                ctx.fault("advertised_socket_revoked_by_connectivity_check");
            }
            if last_sock.1.is_some() && sock.1.is_none() {
                revoked.1 = true;
                ctx.fault("advertised_socket_revoked_by_connectivity_check");
            }
            ctx.ev(format!("t={} local record address {:?} -> {:?} (seq {})", now_ms(), last_sock, sock, enr.seq()));
            ctx.count("address_changes");
            if enr.seq() <= last_seq {
                ctx.fail("c17.seq-not-increased", format!("address changed but seq went {last_seq} -> {}", enr.seq()), &[]);
            }
            if !enr.verify() {
                ctx.fail("c17.invalid-signature", "the updated local record does not verify", &[]);
            }
            let changed: Vec<SocketAddr> = [(sock.0, last_sock.0), (sock.1, last_sock.1)].iter().filter(|(n, o)| n != o).filter_map(|(n, _)| *n).collect();
            for a in &changed {
                if !announced.contains(a) {
                    ctx.fail("c17.change-not-announced", format!("the advertised address changed to {a} but the SocketUpdated events of this step announced {announced:?}"), &[]);
                }
            }
            for a in changed {
                changes_to_some += 1;
                let now = now_ms();
                // The tally is compared within bounds. Expiry: the service took its decision when the PONG was processed,
                // a moment before this check reads the clock, so a vote within `slack` of its expiry may or may not have
                // counted. Dual stack: which PONGs of incoming (or just re-connected) peers count depends on how many
                // votes were missing at the time (possible votes). The winner has at most its certain plus its possible
                // votes that had not clearly expired; a rival at least its certain votes that were clearly alive. The
                // minimum and the margin must hold even then.
                let slack = 100;
                if if a.is_ipv6() { revoked.1 } else { revoked.0 } {
                    continue;
                }
                let mut backers: BTreeSet<usize> = votes.iter().filter(|((_, _), (x, tv))| *x == a && tv + vote_s * 1000 + slack > now).map(|((p, _), _)| *p).collect();
                backers.extend(incoming_pongs.iter().filter(|(_, x, tv)| *x == a && tv + vote_s * 1000 + slack > now).map(|(p, _, _)| *p));
                let c1_ub = backers.len();
                let mut rival_lb = 0;
                for c in &cands {
                    if *c != a && c.is_ipv4() == a.is_ipv4() {
                        rival_lb = rival_lb.max(votes.values().filter(|(x, tv)| x == c && tv + vote_s * 1000 > now + slack).count());
                    }
                }
                let thr = ((c1_ub as f64) * 0.7).round() as usize;
                if dual {
                    ctx.count("dual_stack_margin_checked");
                }
                if c1_ub < min {
                    ctx.fail("c17.moved-by-fewer-than-minimum", format!("address set to {a} backed by at most {c1_ub} unexpired votes of eligible peers, minimum {min}"), &[]);
                } else if rival_lb >= thr {
                    ctx.fail("c17.no-clear-majority", format!("address set to {a} backed by at most {c1_ub} unexpired votes while a rival address holds at least {rival_lb} unexpired votes of connected outgoing peers (needs < {thr})"), &[]);
                }
            }
            last_sock = sock;
            last_seq = enr.seq();
        }
    }
    if !ctx.failed() && socket_updated_events != changes_to_some {
        ctx.fail("c17.socket-updated-event-mismatch", format!("{changes_to_some} changes of the advertised address but {socket_updated_events} SocketUpdated events"), &[]);
    }
    ctx.sample = Some(serde_json::json!({"address_changes": changes_to_some, "votes": votes.len()}));
    ctx.nontrivial = !votes.is_empty();
    sw.shutdown();
}

// ------------------------------------------------------------------------------------------ C20

pub fn run_c20(ctx: &mut Ctx) {
    block_on(ctx, |ctx| Box::pin(c20_async(ctx)));
}

async fn c20_async(ctx: &mut Ctx) {
    let dual = ctx.tape.choose(4) == 0;
    let listen = if dual { ListenConfig::DualStack { ipv4: Ipv4Addr::new(10, 1, 0, 250), ipv4_port: 9000, ipv6: std::net::Ipv6Addr::new(0x2001, 0, 0, 0, 0, 0, 0, 0xfa), ipv6_port: 9000 } } else { v4_listen() };
    let mut sw = match SWorld::new(0, true, listen, |b| {
        b.disable_enr_update();
    })
    .await
    {
        Ok(s) => s,
        Err(e) => {
            ctx.fail("harness-error", e, &[]);
            return;
        }
    };
    // 0: normal stream, 1: the application never drains (stream fills up), 2: the application dropped its stream
    let stream_mode = ctx.tape.choose(4).min(2);
    if stream_mode == 2 {
        let (_tx, rx) = tokio::sync::mpsc::channel(1);
        sw.events = rx; // the real receiver is dropped
    }
    // what the node knows about the five requesters beforehand: nothing; a session with the record they
    // advertise (the source they send from, in dual-stack runs with an IPv6 endpoint as well); a table
    // entry whose record advertises another port or another address than the one they send from now
    // (re-mapped by a NAT, moved). The answer belongs to the address the request came from in every case.
    let mut known: Vec<&str> = vec![];
    for requester in 8..13usize {
        let mut spec = peer_spec(requester, 1);
        let how = match ctx.tape.choose(6) {
            0 | 1 => "unknown",
            2 => {
                if dual {
                    let mut a = [0u8; 16];
                    a[0] = 0xfd;
                    a[15] = requester as u8;
                    spec.ip6 = Some((a, 9000));
                }
                sw.emit(HandlerOut::Established(ident::record(spec), peer_addr(requester), if requester % 2 == 0 { ConnectionDirection::Incoming } else { ConnectionDirection::Outgoing })).await;
                "session"
            }
            3 => {
                let (ip, port) = spec.ip4.unwrap();
                spec.ip4 = Some((ip, port + 1 + ctx.tape.choose(3) as u16));
                let _ = sw.d.add_enr(ident::record(spec));
                "entry-other-port"
            }
            4 => {
                let (ip, port) = spec.ip4.unwrap();
                spec.ip4 = Some(([ip[0], ip[1], ip[2] ^ 0x40, ip[3]], port));
                let _ = sw.d.add_enr(ident::record(spec));
                "entry-other-ip"
            }
            _ => {
                let _ = sw.d.add_enr(ident::record(spec));
                "entry"
            }
        };
        if how != "unknown" {
            ctx.count("talk_requesters_known_beforehand");
        }
        known.push(how);
    }
    sw.settle().await;
    let _ = sw.take_in();
    let _ = sw.take_events();
    ctx.ev(format!("cfg dual_stack={dual} requesters known as {known:?}"));
    let n = 1 + ctx.tape.choose(if stream_mode == 1 { 150 } else { 25 });
    let shutdown_at = if ctx.tape.choose(3) == 0 { Some(ctx.tape.choose(n + 1)) } else { None };
    ctx.ev(format!("cfg talk_requests={n} stream_mode={stream_mode} shutdown_at={shutdown_at:?}"));
    // expected payload per request key (id, requester); None = empty
    let mut sent: Vec<(RequestId, NodeAddress, bool)> = vec![]; // (.., before shutdown)
    let mut app: BTreeMap<Vec<u8>, Option<Vec<u8>>> = BTreeMap::new(); // id -> payload the app answered with (None = dropped)
    let mut held: Vec<TalkRequest> = vec![];
    let mut shut = false;
    let mut handler_alive = true;
    let mut responses: Vec<(NodeAddress, Response)> = vec![];
    for k in 0..n {
        if Some(k) == shutdown_at {
            ctx.fault("shutdown_with_requests_outstanding");
            ctx.ev(format!("t={} SHUTDOWN", now_ms()));
            sw.shutdown();
            sw.settle().await;
            // collect what was sent until now, then the (scripted) handler goes away with the service
            for m in sw.take_in() {
                if let HandlerIn::Response(to, r) = m {
                    responses.push((to, *r));
                }
            }
            sw.ends.from_service.close();
            handler_alive = false;
            shut = true;
        }
        let requester = 8 + (k as usize % 5);
        let mut na = node_address(requester);
        // dual-stack runs: a socket that carries both families reports an IPv4 sender with its IPv4-mapped IPv6
        // address; that (and nothing canonicalised from it) is the address the request came from
        if dual && requester % 2 == 0 {
            if let SocketAddr::V4(a) = na.socket_addr {
                na.socket_addr = SocketAddr::new(IpAddr::V6(a.ip().to_ipv6_mapped()), a.port());
                ctx.count("talk_requests_from_mapped_source");
            }
        }
        let rid = RequestId(vec![(k >> 8) as u8, k as u8, 0x7a]);
        if !shut {
            sw.emit(HandlerOut::Request(na.clone(), Box::new(Request { id: rid.clone(), body: RequestBody::Talk { protocol: b"t".to_vec(), request: vec![k as u8; 3] } }))).await;
            sent.push((rid.clone(), na.clone(), true));
            ctx.ev(format!("t={} TALKREQ {} from #{requester}", now_ms(), hex::encode(&rid.0)));
        }
        if ctx.tape.choose(3) == 0 || shut {
            sw.settle().await;
        }
        // the application's turn
        if stream_mode == 0 {
            for e in sw.take_events() {
                if let Event::TalkRequest(req) = e {
                    held.push(req);
                }
            }
        }
        // time passes while the application sits on the requests it holds (from a moment to many
        // request timeouts)
        if !held.is_empty() && ctx.tape.choose(4) == 0 {
            let ms = *ctx.tape.pick(&[50u64, 1500, 2500, 10_000, 600_000]);
            ctx.fault("application_holds_requests");
            ctx.ev(format!("t={} the application holds {} request(s) for {ms}ms", now_ms(), held.len()));
            tokio::time::sleep(std::time::Duration::from_millis(ms)).await;
        }
        // the requester of a held request is sometimes banned in the meantime (by the application, or because it
        // misbehaved in another exchange): the request it was handed is still owed its one response
        if !held.is_empty() && !shut && ctx.tape.choose(6) == 0 {
            let i = ctx.tape.choose(held.len() as u32) as usize;
            let who = *held[i].node_id();
            let ip = ident_of(&who).map(|p| peer_addr(p).ip());
            match (ctx.tape.choose(2), ip) {
                (1, Some(ip)) => {
                    sw.d.ban_ip(ip, Some(std::time::Duration::from_secs(600)));
                    ctx.ev(format!("t={} the requester {} of a held request is banned (ip {ip})", now_ms(), short(&who)));
                }
                _ => {
                    sw.d.ban_node(&who, None);
                    ctx.ev(format!("t={} the requester {} of a held request is banned (node id)", now_ms(), short(&who)));
                }
            }
            ctx.fault("requester_banned_while_request_held");
        }
        let acts = ctx.tape.choose(4);
        for _ in 0..acts {
            if held.is_empty() {
                break;
            }
            let i = ctx.tape.choose(held.len() as u32) as usize;
            let req = held.remove(i);
            let id = req.id().0.clone();
            if ctx.tape.choose(3) == 0 {
                let panics = ctx.tape.choose(4) == 0;
                ctx.ev(format!("t={} app {} {}", now_ms(), if panics { "panics while holding" } else { "drops" }, hex::encode(&id)));
                ctx.fault(if panics { "application_panics_holding_request" } else { "application_drops_request" });
                if handler_alive {
                    app.insert(id, None);
                }
                if panics {
                    // the request object is dropped by the unwinding of the application's own panic
                    crate::core::with_expected_panic(move || {
                        let _held = req;
                        panic!("{}", crate::core::EXPECTED_PANIC);
                    });
                } else {
                    drop(req);
                }
            } else {
                // (an explicitly empty payload is a response like any other)
                // payloads of every size class: empty, small, around the largest that fits a datagram, larger
                let payload = match ctx.tape.choose(8) {
                    0 | 1 => vec![],
                    2 => vec![0x5a; *ctx.tape.pick(&[1100usize, 1176, 1177, 1200, 1300, 5000])],
                    _ => vec![0xEE, id[1], 1],
                };
                let r = req.respond(payload.clone());
                ctx.ev(format!("t={} app responds {} -> {}", now_ms(), hex::encode(&id), if r.is_ok() { "ok" } else { "err" }));
                if handler_alive {
                    if r.is_err() {
                        ctx.fail("c20.respond-failed-while-running", format!("respond() returned an error for {} while the service was running", hex::encode(&id)), &[]);
                    }
                    app.insert(id, Some(payload));
                } else if r.is_ok() {
                    ctx.fail("c20.respond-ok-after-shutdown", "respond() reported success after the service (and its handler) had shut down", &[]);
                }
            }
        }
    }
    // release everything that is still held
    sw.settle().await;
    if stream_mode == 0 {
        for e in sw.take_events() {
            if let Event::TalkRequest(req) = e {
                held.push(req);
            }
        }
    }
    for req in held.drain(..) {
        let id = req.id().0.clone();
        if handler_alive {
            app.insert(id, None);
        }
        drop(req);
    }
    if stream_mode == 1 {
        // the undrained stream still holds request objects: dropping the stream drops them
        let (_tx, rx) = tokio::sync::mpsc::channel(1);
        let old = std::mem::replace(&mut sw.events, rx);
        drop(old);
    }
    sw.settle().await;
    if handler_alive {
        for m in sw.take_in() {
            if let HandlerIn::Response(to, r) = m {
                responses.push((to, *r));
            }
        }
    }
    // ---- exactly one TALKRESP per request that was delivered while the node was running
    if !shut {
        for (rid, na, _) in &sent {
            let rs: Vec<&Response> = responses.iter().filter(|(to, r)| to == na && r.id == *rid).map(|(_, r)| r).collect();
            ctx.count("talk_requests_checked");
            if rs.len() != 1 {
                let elsewhere: Vec<String> = responses.iter().filter(|(to, r)| to != na && r.id == *rid && to.node_id == na.node_id).map(|(to, _)| to.socket_addr.to_string()).collect();
                ctx.fail(
                    "c20.not-exactly-one-response",
                    format!("TALKREQ {} from {} got {} responses at that address{}", hex::encode(&rid.0), na.socket_addr, rs.len(), if elsewhere.is_empty() { String::new() } else { format!(" (and {} addressed to {})", elsewhere.len(), elsewhere.join(", ")) }),
                    &[],
                );
                break;
            }
            let expect: Vec<u8> = app.get(&rid.0).cloned().flatten().unwrap_or_default();
            match &rs[0].body {
                ResponseBody::Talk { response } if *response == expect => {}
                other => {
                    ctx.fail("c20.wrong-payload", format!("TALKREQ {} answered with {other}, expected payload {}", hex::encode(&rid.0), hex::encode(&expect)), &[]);
                    break;
                }
            }
        }
    } else {
        // with a shutdown in the run: never two responses for one request
        for (rid, na, _) in &sent {
            let c = responses.iter().filter(|(to, r)| to == na && r.id == *rid).count();
            if c > 1 {
                ctx.fail("c20.not-exactly-one-response", format!("TALKREQ {} got {c} responses", hex::encode(&rid.0)), &[]);
                break;
            }
        }
    }
    ctx.nontrivial = true;
    if !shut {
        sw.shutdown();
    }
}
