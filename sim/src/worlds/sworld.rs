//! W-S: a real `Discv5` + `Service` (+ routing table, query pool, IP votes, connectivity state)
//! whose `Handler` is played by the harness through the scripted-handler seam (hook H5).
//! The harness receives `HandlerIn` and emits `HandlerOut`, honouring the handler's contract.

use crate::ident;
use discv5::{
    enr::NodeId,
    verif::{self, scripted::Ends, ConnectionDirection, HandlerIn, HandlerOut, NodeAddress, RequestId, Response, ResponseBody},
    Config, ConfigBuilder, Discv5, Enr, Event, ListenConfig, TokioExecutor,
};
use std::{
    net::{IpAddr, Ipv4Addr, SocketAddr},
    time::Duration,
};
use tokio::sync::mpsc;

pub use super::hworld::{block_on, now_ms};

pub struct SWorld {
    pub d: Discv5,
    pub ends: Ends,
    pub events: mpsc::Receiver<Event>,
    pub local_ident: usize,
    pub local_id: NodeId,
    pub local_addr: SocketAddr,
}

pub fn peer_addr(ident: usize) -> SocketAddr {
    SocketAddr::new(IpAddr::V4(Ipv4Addr::new(10, 1, (ident / 200) as u8, (ident % 200) as u8 + 1)), 9000)
}
pub fn peer_spec(ident: usize, seq: u64) -> ident::RecSpec {
    let a = peer_addr(ident);
    let ip = match a.ip() {
        IpAddr::V4(v) => v.octets(),
        _ => unreachable!(),
    };
    ident::RecSpec { ident, seq, ip4: Some((ip, a.port())), ip6: None, pad: 0 }
}
pub fn peer_enr(ident: usize, seq: u64) -> Enr {
    ident::record(peer_spec(ident, seq))
}
pub fn peer_id(ident: usize) -> NodeId {
    ident::pool()[ident].id
}
pub fn node_address(ident: usize) -> NodeAddress {
    NodeAddress { socket_addr: peer_addr(ident), node_id: peer_id(ident) }
}
pub fn short(id: &NodeId) -> String {
    hex::encode(&id.raw()[..3])
}

impl SWorld {
    /// `tweak` adjusts the configuration; the local node listens (virtually) on 10.1.0.250:9000
    /// and advertises that address in its record when `advertise` is set.
    pub async fn new(local_ident: usize, advertise: bool, listen: ListenConfig, tweak: impl FnOnce(&mut ConfigBuilder)) -> Result<SWorld, String> {
        let local_addr = SocketAddr::new(IpAddr::V4(Ipv4Addr::new(10, 1, 0, 250)), 9000);
        let spec = ident::RecSpec { ident: local_ident, seq: 1, ip4: if advertise { Some(([10, 1, 0, 250], 9000)) } else { None }, ip6: None, pad: 0 };
        let local_enr = ident::record(spec);
        let mut b = ConfigBuilder::new(listen);
        tweak(&mut b);
        let mut config: Config = b.build();
        config.executor = Some(Box::new(TokioExecutor));
        let ends = verif::scripted::arm();
        let mut d = Discv5::new(local_enr, ident::pool()[local_ident].key(), config).map_err(|e| e.to_string())?;
        d.start().await.map_err(|e| format!("{e:?}"))?;
        let events = d.event_stream().await.map_err(|e| format!("{e:?}"))?;
        Ok(SWorld { local_id: ident::pool()[local_ident].id, d, ends, events, local_ident, local_addr })
    }

    /// Let the service run until idle and 1 ms of simulated time pass.
    pub async fn settle(&self) {
        tokio::time::sleep(Duration::from_millis(1)).await;
    }

    pub fn take_in(&mut self) -> Vec<HandlerIn> {
        let mut v = vec![];
        while let Ok(m) = self.ends.from_service.try_recv() {
            v.push(m);
        }
        v
    }

    pub fn take_events(&mut self) -> Vec<Event> {
        let mut v = vec![];
        while let Ok(e) = self.events.try_recv() {
            v.push(e);
        }
        v
    }

    pub async fn emit(&mut self, out: HandlerOut) -> bool {
        self.ends.to_service.send(out).await.is_ok()
    }

    pub async fn establish(&mut self, ident: usize, seq: u64, dir: ConnectionDirection) {
        self.emit(HandlerOut::Established(peer_enr(ident, seq), peer_addr(ident), dir)).await;
    }

    /// PONG as an honest peer would send it: the address the local node's packets come from.
    pub async fn pong(&mut self, from_ident: usize, id: RequestId, observed: SocketAddr, enr_seq: u64) {
        let port = std::num::NonZeroU16::new(observed.port()).unwrap_or(std::num::NonZeroU16::new(1).unwrap());
        let resp = Response { id, body: ResponseBody::Pong { enr_seq, ip: observed.ip(), port } };
        self.emit(HandlerOut::Response(node_address(from_ident), Box::new(resp))).await;
    }

    pub fn shutdown(&mut self) {
        self.d.shutdown();
    }
}

/// Which pool identity owns this node id (peers use pool indices >= 8).
pub fn ident_of(id: &NodeId) -> Option<usize> {
    ident::pool().iter().position(|i| &i.id == id)
}
