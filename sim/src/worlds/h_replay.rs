//! C03 on W-H: handshakes answer only fresh, outstanding challenges.
//!
//! Base exchanges between a victim V, a genuine peer X and a bystander Y are recorded on the wire;
//! recorded handshake / WHOAREYOU datagrams are re-injected at later points of the exchange from
//! the original source, from another address, or towards another node. Enumerated (every recorded
//! datagram x every point x every variant for each base exchange) and explored (tape-chosen base
//! timing, replays, network jitter and duplicates).

use super::h_traffic::short_id;
use super::hworld::*;
use crate::core::Ctx;
use discv5::verif::{toolkit, HandlerIn, HandlerOut, NodeAddress, PacketKind, Request, RequestBody, Response, WhoAreYouRef};
use discv5::{enr::NodeId, Enr};
use std::{collections::BTreeMap, net::SocketAddr};

pub enum X {
    AppWhoAreYou { node: usize, wref: WhoAreYouRef, enr: Option<Enr> },
    AppRespond { node: usize, to: NodeAddress, resp: Response },
    Submit { node: usize, peer: usize, with_enr: bool, find: bool },
    SessionLoss { at: usize, claimed_peer: usize },
    ReplayAtTime(ReplaySpec),
    Restart { node: usize },
}

#[derive(Clone, Debug)]
pub struct ReplaySpec {
    /// index among the recorded handshake/WHOAREYOU datagrams
    which: usize,
    /// re-inject when this many datagrams have been emitted in total, or (>= 100) at a time point
    point: usize,
    /// 0 original source and destination, 1 from another (attacker) address, 2 towards another node (re-addressed as is),
    /// 3 not a replay but a forgery made from the recorded datagram: a WHOAREYOU that echoes the nonce of a recorded
    /// handshake (sent to the handshake's sender from its destination), or a second WHOAREYOU with another id-nonce for
    /// the nonce a recorded WHOAREYOU echoed,
    /// 4 a recorded handshake presented from the socket its own record advertises (when that differs from the source
    /// it was sent from: base exchange 6)
    variant: u32,
}

pub const BASES: usize = 9;
pub const VARIANTS: usize = 5;
pub const ENUM_SPACE: u64 = (BASES * 8 * 14 * VARIANTS) as u64;

pub fn run_enum(ctx: &mut Ctx) {
    block_on(ctx, |ctx| Box::pin(run_async(ctx, true)));
}
pub fn run_explore(ctx: &mut Ctx) {
    block_on(ctx, |ctx| Box::pin(run_async(ctx, false)));
}

struct Chal {
    node: usize,
    t: u64,
    dst: SocketAddr,
    dst_id: NodeId,
    cd: Vec<u8>,
    consumed: bool,
    deadline: u64,
}
struct Hs {
    node: usize,
    t: u64,
    src: SocketAddr,
    src_id: NodeId,
    sig: Vec<u8>,
    ephem: Vec<u8>,
}

async fn run_async(ctx: &mut Ctx, enumerate: bool) {
    // ---- case selection
    let (base, specs): (usize, Vec<ReplaySpec>) = if enumerate {
        let k = (ctx.run_index / 2) % ENUM_SPACE; // this check has two scenarios of weight 1
        let base = (k % BASES as u64) as usize;
        let which = ((k / BASES as u64) % 8) as usize;
        let point = ((k / (BASES as u64 * 8)) % 14) as usize;
        let variant = (k / (BASES as u64 * 8 * 14)) as u32;
        (base, vec![ReplaySpec { which, point: if point < 12 { point + 1 } else { 100 + (point - 12) }, variant }])
    } else {
        let base = ctx.tape.choose(BASES as u32) as usize;
        let n = 1 + ctx.tape.choose(4) as usize;
        let specs = (0..n)
            .map(|_| ReplaySpec { which: ctx.tape.choose(8) as usize, point: if ctx.tape.choose(5) == 0 { 100 + ctx.tape.choose(2) as usize } else { 1 + ctx.tape.choose(14) as usize }, variant: ctx.tape.choose(VARIANTS as u32) })
            .collect();
        (base, specs)
    };
    let mut w: HWorld<X> = HWorld::new(9_000);
    // explored runs: a fifth on an IPv6-only network
    let v6 = !enumerate && ctx.tape.choose(5) == 0;
    if v6 {
        ctx.count("ipv6_runs");
        w.attacker_addrs = vec!["[fd00:9::1]:30303".parse().unwrap(), "[fd00:9::2]:30304".parse().unwrap()];
    }
    for i in 0..3 {
        let mut c = NodeCfg::new(8 + i);
        c.v6 = v6;
        c.request_timeout_ms = 1000;
        c.request_retries = if enumerate { 1 } else { 1 + ctx.tape.choose(2) as u8 };
        // base 6: X's record advertises another port than it sends from (NATed / stale record), so
        // the victim accepts the handshake but reports the record as unverifiable
        c.advertise_other_port = base == 6 && i == 1;
        w.add_node(c).await;
    }
    if !enumerate {
        w.profile.jitter_ms = *ctx.tape.pick(&[0u32, 2, 20]);
        w.profile.dup_pct = *ctx.tape.pick(&[0u32, 0, 20]);
    }
    ctx.ev(format!("cfg {} base={base} replays={specs:?}", if enumerate { "enumerated" } else { "explored" }));
    // ---- base exchange (V = n0, X = n1, Y = n2)
    let knows = matches!(base, 1 | 4);
    match base {
        0 | 1 | 6 => w.schedule(0, Ev::Custom(X::Submit { node: 1, peer: 0, with_enr: true, find: false })),
        2 => w.schedule(0, Ev::Custom(X::Submit { node: 0, peer: 1, with_enr: true, find: false })),
        3 => w.schedule(0, Ev::Custom(X::Submit { node: 0, peer: 1, with_enr: false, find: false })),
        4 => {
            w.schedule(0, Ev::Custom(X::Submit { node: 1, peer: 0, with_enr: true, find: false }));
            w.schedule(300, Ev::Custom(X::SessionLoss { at: 0, claimed_peer: 1 }));
            w.schedule(1400, Ev::Custom(X::Submit { node: 1, peer: 0, with_enr: true, find: false }));
        }
        8 => {
            // V asks X for nodes; X challenges, V answers with its handshake, X answers the request with three NODES
            // packets spread over 400 ms: the request is half answered for a while
            w.schedule(0, Ev::Custom(X::Submit { node: 0, peer: 1, with_enr: true, find: true }));
        }
        7 => {
            // V accepts X's handshake (keys K1); X restarts and forgets; V's next request is challenged by X, so V
            // re-keys as initiator (K2 current, K1 kept as previous keys); more requests of V follow
            w.schedule(0, Ev::Custom(X::Submit { node: 1, peer: 0, with_enr: true, find: false }));
            w.schedule(300, Ev::Custom(X::Restart { node: 1 }));
            w.schedule(600, Ev::Custom(X::Submit { node: 0, peer: 1, with_enr: true, find: false }));
            w.schedule(900, Ev::Custom(X::Submit { node: 0, peer: 1, with_enr: true, find: false }));
            w.schedule(1500, Ev::Custom(X::Submit { node: 0, peer: 1, with_enr: true, find: false }));
            w.schedule(2600, Ev::Custom(X::Submit { node: 0, peer: 1, with_enr: true, find: false }));
        }
        _ => {
            w.schedule(0, Ev::Custom(X::Submit { node: 1, peer: 0, with_enr: false, find: false }));
            w.schedule(0, Ev::Custom(X::Submit { node: 0, peer: 1, with_enr: true, find: false }));
            w.schedule(400, Ev::Custom(X::Submit { node: 2, peer: 0, with_enr: true, find: false }));
        }
    }
    if !enumerate {
        for _ in 0..ctx.tape.choose(3) {
            let node = ctx.tape.choose(3) as usize;
            let peer = (node + 1 + ctx.tape.choose(2) as usize) % 3;
            w.schedule(ctx.tape.choose(2500) as u64, Ev::Custom(X::Submit { node, peer, with_enr: ctx.tape.choose(2) == 0, find: ctx.tape.choose(3) == 0 }));
        }
    }
    // time-based replay points: 100 = after every challenge has expired, 101 = while a later exchange is running
    for s in specs.iter().filter(|s| s.point >= 100) {
        let at = if s.point == 100 { 3600 } else { 1402 };
        w.schedule(at, Ev::Custom(X::ReplayAtTime(s.clone())));
    }

    let mut chals: Vec<Chal> = vec![];
    let mut hss: Vec<Hs> = vec![];
    let mut recorded: Vec<usize> = vec![]; // wire indices of handshake/WHOAREYOU datagrams
    let mut keys_checked = 0usize;
    let mut next_rid = 1u64;
    // (b): WHOAREYOUs delivered to a node: (node, src, nonce, used_for_handshake_bytes)
    let mut wru_in: Vec<(usize, SocketAddr, [u8; 12], Option<Vec<u8>>)> = vec![];
    let mut failed_reqs: BTreeMap<u64, u64> = BTreeMap::new();
    let mut idnonces: BTreeMap<(usize, [u8; 16]), usize> = BTreeMap::new();
    let mut injected = 0;
    let mut hs_per_request: BTreeMap<(usize, u64), u32> = BTreeMap::new();
    let mut last_enc_key: BTreeMap<(usize, [u8; 32]), usize> = BTreeMap::new();

    loop {
        if ctx.failed() {
            break;
        }
        let obs = w.next().await;
        w.absorb_keys();
        // (a) every recipient-side session (creation or re-key) consumes one fresh, unexpired challenge
        while keys_checked < w.keylog.len() {
            let (tk, k) = w.keylog[keys_checked].clone();
            keys_checked += 1;
            if k.initiator {
                continue;
            }
            let Some(node) = w.node_by_id(&k.local) else { continue };
            ctx.count("recipient_sessions_checked");
            let pk = w.node_by_id(&k.remote).map(|i| w.nodes[i].enr.public_key());
            let to = w.nodes[node].cfg.request_timeout_ms;
            let mut found = false;
            let mut found_stale: Option<String> = None;
            if let Some(pk) = pk {
                'outer: for h in hss.iter().filter(|h| h.node == node && h.src_id == k.remote) {
                    for c in chals.iter_mut().filter(|c| c.node == node && c.dst_id == k.remote && c.dst == h.src && c.t <= h.t) {
                        if toolkit::verify_id_signature(&pk, &h.ephem, &c.cd, &k.local, &h.sig) {
                            if c.consumed {
                                found_stale = Some(format!("challenge of t={} was already consumed", c.t));
                                continue;
                            }
                            if h.t > c.deadline + 2 {
                                found_stale = Some(format!("challenge of t={} had expired at {} (handshake delivered at {})", c.t, c.deadline, h.t));
                                continue;
                            }
                            c.consumed = true;
                            found = true;
                            break 'outer;
                        }
                    }
                }
            }
            if !found {
                let _ = to;
                ctx.fail(
                    "c03.session-without-fresh-challenge",
                    format!("n{node} created or re-keyed a session for {} at {tk}ms without a handshake answering a fresh outstanding WHOAREYOU to that id and address ({})", short_id(&k.remote), found_stale.unwrap_or_else(|| "no delivered handshake verifies against any challenge".into())),
                    &[],
                );
            }
        }
        if ctx.failed() {
            break;
        }
        match obs {
            Obs::Horizon => break,
            Obs::Datagram { from, out } => {
                let wi = w.tap(ctx, from, &out);
                let rec = w.wire[wi].clone();
                if let Some(d) = &rec.dec {
                    match &d.kind {
                        PacketKind::WhoAreYou { id_nonce, .. } => {
                            recorded.push(wi);
                            let to = w.nodes[from].cfg.request_timeout_ms;
                            chals.push(Chal { node: from, t: now_ms(), dst: rec.dst, dst_id: rec.dst_id, cd: d.authenticated_data.clone(), consumed: false, deadline: now_ms() + to });
                            if let Some(prev) = idnonces.insert((from, *id_nonce), wi) {
                                ctx.fail("c03.id-nonce-repeated", format!("n{from} reused an id-nonce (datagrams #{prev} and #{wi})"), &[]);
                            }
                        }
                        PacketKind::Message { .. } => {
                            // (c) the key a node encrypts with moves back to that of an earlier handshake only because a
                            // *message* under those keys arrived since the node re-keyed (that is how two sides that crossed
                            // handshakes converge); a replayed handshake must not do it
                            let first_tx = !w.wire[..wi].iter().any(|r| r.from == from && r.bytes == rec.bytes);
                            if let (true, Some((ki, _))) = (first_tx, w.decrypt_with_log(d, &w.nodes[from].id)) {
                                let remote = w.keylog[ki].1.remote.raw();
                                let prev = last_enc_key.insert((from, remote), ki);
                                if let Some(kj) = prev {
                                    if ki < kj {
                                        ctx.count("key_rotations_back_checked");
                                        let t_rekey = w.keylog[kj].0;
                                        let dk = w.keylog[ki].1.decryption_key;
                                        let my_id = w.nodes[from].id;
                                        let justified = w.inbound[from].iter().any(|r| {
                                            r.t_ms >= t_rekey
                                                && r.src == rec.dst
                                                && toolkit::decode_packet(&my_id, &r.bytes).ok().map(|p| matches!(p.kind, PacketKind::Message { .. }) && toolkit::decrypt(&dk, p.message_nonce, &p.message, &p.authenticated_data).is_some()).unwrap_or(false)
                                        });
                                        if !justified {
                                            ctx.fail(
                                                "c03.session-rekeyed-without-handshake",
                                                format!("n{from} went back to encrypting with the keys of an earlier handshake (key-log entry #{ki}, after #{kj}) although no message under those keys has reached it since it re-keyed at {t_rekey}ms"),
                                                &[],
                                            );
                                        }
                                    }
                                }
                            }
                        }
                        PacketKind::Handshake { .. } => {
                            recorded.push(wi);
                            // (b) a new handshake needs a delivered WHOAREYOU from that address echoing the
                            // nonce of a datagram this node emitted to that address; one handshake per nonce
                            let retransmission = w.wire[..wi].iter().any(|r| r.from == from && r.bytes == rec.bytes);
                            if !retransmission {
                                ctx.count("handshakes_emitted");
                                let ok = wru_in.iter().filter(|(n, src, _, _)| *n == from && *src == rec.dst).any(|(n, src, nonce, _)| {
                                    w.wire[..wi].iter().any(|r| r.from == *n && r.dst == *src && r.dec.as_ref().map(|d| d.message_nonce == *nonce && !matches!(d.kind, PacketKind::WhoAreYou { .. })).unwrap_or(false))
                                });
                                if !ok {
                                    ctx.fail("c03.handshake-without-matching-whoareyou", format!("n{from} emitted a handshake to {} without a WHOAREYOU from that address echoing the nonce of a request in flight to it", rec.dst), &[]);
                                }
                                // one handshake per request: the handshake carries the request, readable with the key log
                                if let Some((_, pt)) = w.decrypt_with_log(d, &w.nodes[from].id) {
                                    if let Some(discv5::verif::Message::Request(rq)) = decode_message(&pt) {
                                        let c = hs_per_request.entry((from, rid_num(&rq.id))).or_insert(0u32);
                                        *c += 1;
                                        if *c > 1 {
                                            ctx.fail("c03.second-handshake-for-request", format!("n{from} answered a second WHOAREYOU for request r{} with another handshake", rid_num(&rq.id)), &[]);
                                        }
                                    }
                                }
                            }
                        }
                        _ => {}
                    }
                }
                // exploration: the network holds a genuine handshake back until around (often past) the expiry of
                // the challenge it answers, while further undecryptable packets in the sender's name keep
                // arriving at the challenger (each makes the application answer another who-are-you query)
                let mut held = false;
                if !enumerate {
                    if let (Some(d), Some(to)) = (&rec.dec, w.node_by_addr(&rec.dst)) {
                        let first_tx = !w.wire[..wi].iter().any(|r| r.from == from && r.bytes == rec.bytes);
                        let is_hs = matches!(d.kind, PacketKind::Handshake { .. });
                        let is_wru = matches!(d.kind, PacketKind::WhoAreYou { .. });
                        let tmo = w.nodes[to].cfg.request_timeout_ms;
                        let dice = if first_tx && (is_hs || is_wru) { ctx.tape.choose(12) } else { 99 };
                        if is_hs && dice < 3 {
                            let delay = tmo - 300 + ctx.tape.choose(1500) as u64;
                            ctx.fault("handshake_held_back");
                            ctx.ev(format!("t={} n{from}->n{to} HANDSHAKE held back for {delay}ms", now_ms()));
                            w.schedule(delay, Ev::Deliver { to, src: rec.src, bytes: rec.bytes.clone(), origin: Origin::Mutated { wire: wi, how: "held-back" } });
                            for _ in 0..ctx.tape.choose(4) {
                                w.schedule(1 + ctx.tape.choose(delay as u32 - 1) as u64, Ev::Custom(X::SessionLoss { at: to, claimed_peer: from }));
                            }
                            held = true;
                        } else if dice == 3 || dice == 4 {
                            // the datagram reaches its destination from the sender's IP but another UDP port
                            // (another process on that host, a NAT that re-maps mid-exchange); the genuine copy
                            // follows later or never
                            let mut src = rec.src;
                            src.set_port(rec.src.port().wrapping_add(7));
                            ctx.fault("same_ip_other_port");
                            ctx.ev(format!("t={} n{from}->n{to} {} arrives from {src} instead", now_ms(), if is_hs { "HANDSHAKE" } else { "WHOAREYOU" }));
                            w.schedule(1, Ev::Deliver { to, src, bytes: rec.bytes.clone(), origin: Origin::Mutated { wire: wi, how: "same-ip-other-port" } });
                            if ctx.tape.choose(2) == 0 {
                                w.schedule(2 + ctx.tape.choose(400) as u64, Ev::Deliver { to, src: rec.src, bytes: rec.bytes.clone(), origin: Origin::Genuine { wire: wi, from } });
                            }
                            held = true;
                        } else if is_hs && dice == 5 {
                            // the handshake's message part is damaged in flight (the id signature does not cover it):
                            // the damaged copy arrives first and then again and again; the intact one may follow
                            let mut bytes = rec.bytes.clone();
                            let l = bytes.len();
                            bytes[l - 1 - ctx.tape.choose(8) as usize] ^= 1 << ctx.tape.choose(8);
                            ctx.fault("handshake_message_damaged_and_replayed");
                            ctx.ev(format!("t={} n{from}->n{to} HANDSHAKE damaged in its message part, delivered repeatedly", now_ms()));
                            let mut at = 1u64;
                            for _ in 0..(2 + ctx.tape.choose(3)) {
                                w.schedule(at, Ev::Deliver { to, src: rec.src, bytes: bytes.clone(), origin: Origin::Mutated { wire: wi, how: "damaged-message" } });
                                at += 1 + ctx.tape.choose(tmo as u32) as u64;
                            }
                            if ctx.tape.choose(2) == 0 {
                                w.schedule(at, Ev::Deliver { to, src: rec.src, bytes: rec.bytes.clone(), origin: Origin::Genuine { wire: wi, from } });
                            }
                            held = true;
                        }
                    }
                }
                if !held {
                    w.route(ctx, wi);
                }
                // count-based replay points
                let emitted = w.wire.len();
                for s in specs.iter().filter(|s| s.point < 100 && s.point == emitted) {
                    if inject_replay(ctx, &mut w, s, &recorded, &mut hss, &mut chals, &mut wru_in) {
                        injected += 1;
                    }
                }
            }
            Obs::Sched(Ev::Deliver { to, src, bytes, origin }) => {
                if w.nodes[to].alive {
                    note(&w, to, src, &bytes, &mut hss, &mut chals, &mut wru_in);
                    w.deliver(to, src, bytes, origin);
                }
            }
            Obs::Sched(Ev::Custom(x)) => match x {
                X::Submit { node, peer, with_enr, find } => {
                    let id = next_rid;
                    next_rid += 1;
                    ctx.ev(format!("t={} n{node} submit r{id} -> n{peer} enr={with_enr}", now_ms()));
                    let contact = w.contact(peer, with_enr);
                    let body = if find { RequestBody::FindNode { distances: vec![255, 254, 253] } } else { RequestBody::Ping { enr_seq: 1 } };
                    w.send_in(node, HandlerIn::Request(contact, Box::new(Request { id: rid(id), body })));
                }
                X::AppWhoAreYou { node, wref, enr } => {
                    w.send_in(node, HandlerIn::WhoAreYou(wref, enr));
                }
                X::AppRespond { node, to, resp } => {
                    w.send_in(node, HandlerIn::Response(to, Box::new(resp)));
                }
                X::SessionLoss { at, claimed_peer } => {
                    ctx.fault("undecryptable_packet_session_loss");
                    let bytes = toolkit::encode_packet(7, [9u8; 12], PacketKind::Message { src_id: w.nodes[claimed_peer].id }, vec![0x5a; 44], &w.nodes[at].id);
                    ctx.ev(format!("t={} inject undecryptable MSG at n{at} as n{claimed_peer}", now_ms()));
                    let src = w.nodes[claimed_peer].addr;
                    w.deliver(at, src, bytes, Origin::Injected { tag: "undecryptable" });
                }
                X::Restart { node } => {
                    ctx.fault("peer_restart");
                    ctx.ev(format!("t={} RESTART n{node}", now_ms()));
                    w.restart(node).await;
                }
                X::ReplayAtTime(s) => {
                    if inject_replay(ctx, &mut w, &s, &recorded, &mut hss, &mut chals, &mut wru_in) {
                        injected += 1;
                    }
                }
            },
            Obs::Out { node, ev } => {
                let t = now_ms();
                match ev {
                    HandlerOut::WhoAreYou(wref) => {
                        let enr = if knows || base == 5 { w.known_record(&wref.0.node_id) } else { None };
                        ctx.ev(format!("t={t} n{node} out WhoAreYou({})", short_id(&wref.0.node_id)));
                        w.schedule(0, Ev::Custom(X::AppWhoAreYou { node, wref, enr }));
                    }
                    HandlerOut::Request(from, req) => {
                        ctx.ev(format!("t={t} n{node} out Request from {}", short_id(&from.node_id)));
                        let total = if matches!(&req.body, RequestBody::FindNode { .. }) { 3 } else { 1 };
                        for (k, resp) in w.default_response(node, &from, &req, total).into_iter().enumerate() {
                            w.schedule(200 * k as u64, Ev::Custom(X::AppRespond { node, to: from.clone(), resp }));
                        }
                    }
                    HandlerOut::RequestFailed(id, e) => {
                        ctx.ev(format!("t={t} n{node} out RequestFailed r{} {e:?}", rid_num(&id)));
                        failed_reqs.insert(rid_num(&id), t);
                    }
                    HandlerOut::Response(from, r) => ctx.ev(format!("t={t} n{node} out Response r{} from {}", rid_num(&r.id), short_id(&from.node_id))),
                    HandlerOut::Established(e, a, d) => ctx.ev(format!("t={t} n{node} out Established({}, {a}, {d:?})", short_id(&e.node_id()))),
                    HandlerOut::UnverifiableEnr { node_id, .. } => ctx.ev(format!("t={t} n{node} out UnverifiableEnr({})", short_id(&node_id))),
                    _ => {}
                }
            }
        }
    }
    if injected > 0 {
        ctx.nontrivial = true;
    }
    ctx.sample = Some(serde_json::json!({"base": base, "replays_injected": injected, "recorded_handshake_or_whoareyou": recorded.len(), "sessions": w.keylog.len()}));
    w.shutdown();
}

/// Book-keeping for a datagram handed to a node.
fn note(w: &HWorld<X>, to: usize, src: SocketAddr, bytes: &[u8], hss: &mut Vec<Hs>, chals: &mut [Chal], wru_in: &mut Vec<(usize, SocketAddr, [u8; 12], Option<Vec<u8>>)>) {
    let Ok(d) = toolkit::decode_packet(&w.nodes[to].id, bytes) else { return };
    match d.kind {
        PacketKind::Handshake { src_id, id_nonce_sig, ephem_pubkey, .. } => {
            // a delivered handshake may re-arm (invalid signature) an outstanding challenge
            let tmo = w.nodes[to].cfg.request_timeout_ms;
            for c in chals.iter_mut().filter(|c| c.node == to && c.dst == src && c.dst_id == src_id && !c.consumed) {
                if now_ms() <= c.deadline + 2 {
                    c.deadline = now_ms() + tmo;
                }
            }
            hss.push(Hs { node: to, t: now_ms(), src, src_id, sig: id_nonce_sig, ephem: ephem_pubkey });
        }
        PacketKind::WhoAreYou { .. } => wru_in.push((to, src, d.message_nonce, None)),
        _ => {}
    }
}

fn inject_replay(ctx: &mut Ctx, w: &mut HWorld<X>, s: &ReplaySpec, recorded: &[usize], hss: &mut Vec<Hs>, chals: &mut [Chal], wru_in: &mut Vec<(usize, SocketAddr, [u8; 12], Option<Vec<u8>>)>) -> bool {
    let Some(&wi) = recorded.get(s.which) else { return false };
    let r = w.wire[wi].clone();
    let Some(orig_to) = w.node_by_addr(&r.dst) else { return false };
    if s.variant == 3 {
        // forgeries need no key: a WHOAREYOU is not authenticated, anybody who saw the recorded datagram can make one
        let Some(d) = &r.dec else { return false };
        let (to, src, how) = match d.kind {
            PacketKind::Handshake { .. } => (r.from, r.dst, "forged-whoareyou-for-handshake-nonce"),
            PacketKind::WhoAreYou { .. } => (orig_to, r.src, "forged-second-whoareyou"),
            _ => return false,
        };
        if !w.nodes[to].alive {
            return false;
        }
        let mut id_nonce = [0xa5u8; 16];
        id_nonce[0] = s.which as u8;
        id_nonce[1] = s.point as u8;
        let bytes = toolkit::encode_packet(11, d.message_nonce, PacketKind::WhoAreYou { id_nonce, enr_seq: 0 }, vec![], &w.nodes[to].id);
        ctx.fault(how);
        ctx.ev(format!("t={} FORGERY from #{wi} ({}) {how} -> n{to} from {src}", now_ms(), HWorld::<X>::describe(&r.dec)));
        note(w, to, src, &bytes, hss, chals, wru_in);
        w.deliver(to, src, bytes, Origin::Injected { tag: how });
        return true;
    }
    if s.variant == 4 {
        let Some(d) = &r.dec else { return false };
        let PacketKind::Handshake { enr_record: Some(enr), .. } = &d.kind else { return false };
        let adv: Option<SocketAddr> = match r.src {
            SocketAddr::V4(_) => enr.udp4_socket().map(SocketAddr::V4),
            SocketAddr::V6(_) => enr.udp6_socket().map(SocketAddr::V6),
        };
        let Some(src) = adv.filter(|a| *a != r.src) else { return false };
        if !w.nodes[orig_to].alive {
            return false;
        }
        let how = "replay-from-advertised-socket";
        ctx.fault(how);
        ctx.ev(format!("t={} REPLAY #{wi} ({}) {how} -> n{orig_to} from {src}", now_ms(), HWorld::<X>::describe(&r.dec)));
        note(w, orig_to, src, &r.bytes, hss, chals, wru_in);
        w.deliver(orig_to, src, r.bytes.clone(), Origin::Mutated { wire: wi, how });
        return true;
    }
    let (to, src, how) = match s.variant {
        0 => (orig_to, r.src, "replay"),
        1 => (orig_to, w.attacker_addrs[0], "replay-from-other-address"),
        _ => ((orig_to + 1 + (r.from == (orig_to + 1) % 3) as usize) % 3, r.src, "replay-to-other-node"),
    };
    if !w.nodes[to].alive {
        return false;
    }
    ctx.fault(how);
    ctx.ev(format!("t={} REPLAY #{wi} ({}) {how} -> n{to} from {src}", now_ms(), HWorld::<X>::describe(&r.dec)));
    note(w, to, src, &r.bytes, hss, chals, wru_in);
    w.deliver(to, src, r.bytes.clone(), Origin::Mutated { wire: wi, how });
    true
}
