pub mod table;
