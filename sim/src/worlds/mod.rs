pub mod table;
pub mod iptable;
pub mod query;
pub mod recvfilter;
