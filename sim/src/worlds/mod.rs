pub mod table;
pub mod iptable;
