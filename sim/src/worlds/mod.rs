pub mod table;
pub mod iptable;
pub mod query;
pub mod recvfilter;
pub mod hworld;
pub mod h_traffic;
pub mod h_adv;
pub mod h_replay;
