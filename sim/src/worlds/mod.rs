pub mod table;
pub mod iptable;
pub mod query;
pub mod recvfilter;
pub mod hworld;
pub mod h_traffic;
