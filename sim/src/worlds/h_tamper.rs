//! C02 on W-H: delivered messages are authentic and untampered.
//!
//! Honest sessions between V, X and Y in several states; the network corrupts genuine datagrams
//! (bit flip, truncation, byte insertion, header/body splice, misdelivery, re-masking for another
//! node, spoofed source, replay). Oracle: every Request/Response handed to an application must be
//! carried by a datagram in the receiver's inbound history that is byte-identical to one the
//! attributed peer's real handler emitted towards this receiver, arrived from that peer's address
//! and decrypts under that peer's session key to exactly the delivered message.

use super::h_traffic::short_id;
use super::hworld::*;
use crate::core::{Ctx, Tier};
use discv5::verif::{toolkit, HandlerIn, HandlerOut, Message, NodeAddress, PacketKind, Request, RequestBody, Response, ResponseBody, WhoAreYouRef};
use discv5::Enr;
use std::net::SocketAddr;

pub enum X {
    AppWhoAreYou { node: usize, wref: WhoAreYouRef, enr: Option<Enr> },
    AppRespond { node: usize, to: NodeAddress, resp: Response },
    Submit { node: usize, peer: usize, with_enr: bool, body: RequestBody },
    SessionLoss { at: usize, claimed_peer: usize },
    /// a message in `claimed_peer`'s name from its address, sealed by somebody who holds none of the session
    /// keys (all-zero key, all-ones key)
    ForgedMessage { at: usize, claimed_peer: usize, key_byte: u8 },
}

pub const BASES: u64 = 6;
pub const DGRAMS: u64 = 10;
pub const JMAX: u64 = 3309;
pub const ENUM_SPACE: u64 = BASES * DGRAMS * JMAX;

#[derive(Clone, Debug)]
enum Mutation {
    FlipBit(usize),
    Truncate(usize),
    Insert(usize, u8),
    Splice(usize),
    Misdeliver(usize),
    Remask(usize),
    SpoofSource,
    /// presented from the genuine sender's IP but another UDP port
    SpoofPort,
    /// presented from the socket the sender's record advertises (differs from the real one for a NATed /
    /// stale record)
    SpoofAdvertised,
    /// presented from the IPv4-mapped IPv6 alias of the genuine source (same IP, same port, other address family)
    SpoofMapped,
    /// insert junk bytes behind the auth-data and patch the (masked) authdata-size field to cover
    /// them: XOR in the masked domain flips the same bits in the clear, so no key is needed
    GrowAuthData(usize),
    None,
}

pub fn run_enum(ctx: &mut Ctx) {
    block_on(ctx, |ctx| Box::pin(run_async(ctx, true)));
}
pub fn run_explore(ctx: &mut Ctx) {
    block_on(ctx, |ctx| Box::pin(run_async(ctx, false)));
}

fn schedule_base(w: &mut HWorld<X>, base: u64) {
    let ping = RequestBody::Ping { enr_seq: 1 };
    let find = RequestBody::FindNode { distances: vec![255, 256] };
    let talk = RequestBody::Talk { protocol: b"c02".to_vec(), request: b"payload-c02".to_vec() };
    match base {
        0 => w.schedule(0, Ev::Custom(X::Submit { node: 1, peer: 0, with_enr: true, body: ping })),
        1 => w.schedule(0, Ev::Custom(X::Submit { node: 0, peer: 1, with_enr: true, body: find })),
        2 => w.schedule(0, Ev::Custom(X::Submit { node: 0, peer: 1, with_enr: false, body: talk })),
        3 => {
            w.schedule(0, Ev::Custom(X::Submit { node: 1, peer: 0, with_enr: true, body: ping }));
            w.schedule(300, Ev::Custom(X::SessionLoss { at: 0, claimed_peer: 1 }));
            w.schedule(1400, Ev::Custom(X::Submit { node: 1, peer: 0, with_enr: true, body: talk }));
        }
        4 => {
            w.schedule(0, Ev::Custom(X::Submit { node: 1, peer: 0, with_enr: false, body: ping.clone() }));
            w.schedule(0, Ev::Custom(X::Submit { node: 0, peer: 1, with_enr: true, body: talk }));
            w.schedule(5, Ev::Custom(X::Submit { node: 2, peer: 0, with_enr: true, body: ping }));
        }
        _ => {
            w.schedule(0, Ev::Custom(X::Submit { node: 1, peer: 0, with_enr: true, body: find }));
            w.schedule(50, Ev::Custom(X::Submit { node: 0, peer: 1, with_enr: true, body: ping }));
        }
    }
}

async fn run_async(ctx: &mut Ctx, enumerate: bool) {
    let mut w: HWorld<X> = HWorld::new(7_000);
    // explored runs: a fifth on an IPv6-only network (the enumeration keeps its fixed IPv4 base exchanges)
    let v6 = !enumerate && ctx.tape.choose(5) == 0;
    if v6 {
        ctx.count("ipv6_runs");
        w.attacker_addrs = vec!["[fd00:9::1]:30303".parse().unwrap(), "[fd00:9::2]:30304".parse().unwrap()];
    }
    for i in 0..3 {
        let mut c = NodeCfg::new(8 + i);
        c.v6 = v6;
        // explored runs: a peer's record sometimes advertises another port than it really sends from
        c.advertise_other_port = !enumerate && ctx.tape.choose(5) == 0;
        c.request_timeout_ms = 1000;
        c.request_retries = 1;
        w.add_node(c).await;
    }
    // ---- case
    let (base, target, jsel): (u64, Option<u64>, u64) = if enumerate {
        let e = ctx.run_index / 2;
        let k = if ctx.tier == Tier::Quick { (e.wrapping_mul(7919)) % ENUM_SPACE } else { e % ENUM_SPACE };
        (k % BASES, Some((k / BASES) % DGRAMS), k / (BASES * DGRAMS))
    } else {
        (ctx.tape.choose(BASES as u32) as u64, None, 0)
    };
    let mut handmade = 0u32;
    let corrupt_pct = if enumerate { 0 } else { *ctx.tape.pick(&[5u32, 15, 40]) };
    // explored runs: the total a responder announces in its NODES packets is sometimes not the number it sends
    // (the peer may write whatever it likes there; what is delivered must still be what it encrypted)
    let announced_total: Option<u64> = if enumerate { None } else { *ctx.tape.pick(&[None, None, None, Some(3u64), Some(16), Some(40), Some(u64::MAX)]) };
    if announced_total.is_some() {
        ctx.count("runs_with_odd_nodes_total");
    }
    if !enumerate {
        w.profile.jitter_ms = *ctx.tape.pick(&[0u32, 3]);
        w.profile.dup_pct = *ctx.tape.pick(&[0u32, 10]);
    }
    ctx.ev(format!("cfg {} base={base} target_datagram={target:?} j={jsel} corrupt%={corrupt_pct}", if enumerate { "enumerated" } else { "explored" }));
    schedule_base(&mut w, base);
    if !enumerate {
        for _ in 0..ctx.tape.choose(4) {
            let node = ctx.tape.choose(3) as usize;
            let peer = (node + 1 + ctx.tape.choose(2) as usize) % 3;
            let body = match ctx.tape.choose(3) {
                0 => RequestBody::Ping { enr_seq: 1 },
                1 => RequestBody::FindNode { distances: vec![254] },
                _ => RequestBody::Talk { protocol: b"x".to_vec(), request: vec![7; 1 + ctx.tape.choose(30) as usize] },
            };
            w.schedule(ctx.tape.choose(3000) as u64, Ev::Custom(X::Submit { node, peer, with_enr: ctx.tape.choose(2) == 0, body }));
        }
        for _ in 0..ctx.tape.choose(3) {
            let at = ctx.tape.choose(3) as usize;
            let claimed_peer = (at + 1 + ctx.tape.choose(2) as usize) % 3;
            w.schedule(5 + ctx.tape.choose(3500) as u64, Ev::Custom(X::ForgedMessage { at, claimed_peer, key_byte: *ctx.tape.pick(&[0u8, 0, 0xff]) }));
        }
    }
    let mut next_rid = 1u64;
    let mut mutated = 0u32;
    // which address each session (key-log entry) was established with
    let mut hs_in: Vec<(usize, std::net::SocketAddr, discv5::enr::NodeId, Vec<u8>)> = vec![];
    let mut chal_out: Vec<(usize, std::net::SocketAddr, discv5::enr::NodeId, Vec<u8>)> = vec![];
    let mut hs_out: Vec<(usize, std::net::SocketAddr, discv5::enr::NodeId)> = vec![];
    let mut session_addr: std::collections::BTreeMap<usize, std::net::SocketAddr> = Default::default();
    let mut keys_seen = 0usize;

    loop {
        if ctx.failed() {
            break;
        }
        let obs = w.next().await;
        w.absorb_keys();
        while keys_seen < w.keylog.len() {
            let k = w.keylog[keys_seen].1.clone();
            if let Some(n) = w.node_by_id(&k.local) {
                let a = if k.initiator {
                    hs_out.iter().rev().find(|(m, _, id)| *m == n && *id == k.remote).map(|x| x.1)
                } else {
                    // exactly the (challenge, handshake) pair whose key agreement reproduces the logged keys
                    let key = w.key_of(n);
                    let mut found = None;
                    'o: for (m, src, id, ephem) in hs_in.iter().rev() {
                        if *m != n || *id != k.remote {
                            continue;
                        }
                        for (cm, dst, did, cd) in chal_out.iter().rev() {
                            if *cm == n && dst == src && *did == k.remote {
                                if let Some((ikey, rkey)) = toolkit::recipient_keys(&key, &k.local, &k.remote, cd, ephem) {
                                    if ikey == k.decryption_key && rkey == k.encryption_key {
                                        found = Some(*src);
                                        break 'o;
                                    }
                                }
                            }
                        }
                    }
                    found
                };
                if let Some(a) = a {
                    session_addr.insert(keys_seen, a);
                }
            }
            keys_seen += 1;
        }
        match obs {
            Obs::Horizon => break,
            Obs::Datagram { from, out } => {
                let wi = w.tap(ctx, from, &out);
                if let Some(d) = &w.wire[wi].dec {
                    if matches!(d.kind, PacketKind::Handshake { .. }) {
                        hs_out.push((from, out.0, out.1));
                    }
                    if matches!(d.kind, PacketKind::WhoAreYou { .. }) {
                        chal_out.push((from, out.0, out.1, d.authenticated_data.clone()));
                    }
                }
                // exploration: a party with keys of its own (but not the challenged peer's) answers this
                // WHOAREYOU in the peer's name, from the peer's address; whatever it sends afterwards must
                // never be delivered as the peer's
                if !enumerate {
                    if let Some(d) = &w.wire[wi].dec {
                        if matches!(d.kind, PacketKind::WhoAreYou { .. }) {
                            if let Some(claimed) = w.node_by_addr(&out.0) {
                                if claimed != from && ctx.tape.choose(5) == 0 {
                                    let adv = super::h_adv::Adversary::new(160 + ctx.tape.choose(4) as usize, w.attacker_addrs[0]);
                                    let plan = super::h_adv::Plan { victim: from, claimed, spoof_src: true, record: ctx.tape.choose(4), seq_rel: ctx.tape.choose(3), signer: 0, bad_ephem: false, follow_up: false, as_self: false };
                                    let cd = d.authenticated_data.clone();
                                    if let Some(bytes) = super::h_adv::craft_handshake(ctx, &w, &adv, &plan, &cd, out.0, &Default::default()) {
                                        ctx.fault("forged_handshake");
                                        mutated += 1;
                                        ctx.ev(format!("t={} FORGED handshake at n{from} in the name of n{claimed} {plan:?}", now_ms()));
                                        w.schedule(1 + ctx.tape.choose(3) as u64, Ev::Deliver { to: from, src: out.0, bytes, origin: Origin::Injected { tag: "forged-handshake" } });
                                    }
                                }
                            }
                        }
                    }
                }
                let is_target = match target {
                    Some(d) => wi as u64 == d,
                    None => ctx.tape.choose(100) < corrupt_pct,
                };
                if !is_target {
                    w.route(ctx, wi);
                    continue;
                }
                let rec = w.wire[wi].clone();
                let len = rec.bytes.len();
                let m = if enumerate {
                    let l = len as u64;
                    if jsel < 8 * l {
                        Mutation::FlipBit(jsel as usize)
                    } else if jsel < 9 * l {
                        Mutation::Truncate((jsel - 8 * l) as usize)
                    } else if jsel < 10 * l {
                        Mutation::Insert((jsel - 9 * l) as usize, 0xA5)
                    } else if jsel < 10 * l + 8 {
                        Mutation::GrowAuthData(1 + (jsel - 10 * l) as usize)
                    } else if jsel == 10 * l + 8 {
                        Mutation::SpoofPort
                    } else {
                        Mutation::None
                    }
                } else {
                    match ctx.tape.choose(13) {
                        12 => Mutation::SpoofMapped,
                        11 => Mutation::SpoofAdvertised,
                        10 => Mutation::SpoofPort,
                        9 => Mutation::GrowAuthData(1 + ctx.tape.choose(12) as usize),
                        0 | 1 => Mutation::FlipBit(ctx.tape.choose(len as u32 * 8) as usize),
                        2 => Mutation::Truncate(ctx.tape.choose(len as u32) as usize),
                        3 => Mutation::Insert(ctx.tape.choose(len as u32 + 1) as usize, ctx.tape.choose(256) as u8),
                        4 | 5 => Mutation::Splice(ctx.tape.choose(wi as u32 + 1) as usize),
                        6 => Mutation::Misdeliver(ctx.tape.choose(3) as usize),
                        7 => Mutation::Remask(ctx.tape.choose(3) as usize),
                        _ => Mutation::SpoofSource,
                    }
                };
                let Some(to) = w.node_by_addr(&rec.dst) else {
                    w.route(ctx, wi);
                    continue;
                };
                let what = HWorld::<X>::describe(&rec.dec);
                let (bytes, to2, src, how): (Vec<u8>, usize, SocketAddr, &'static str) = match &m {
                    Mutation::None => {
                        // nothing to mutate at this index: the case is empty, end the run early
                        ctx.ev(format!("t={} n{from}->n{to} {what} (mutation index beyond datagram length: empty case)", now_ms()));
                        break;
                    }
                    Mutation::FlipBit(b) => {
                        let mut v = rec.bytes.clone();
                        v[b / 8] ^= 1 << (b % 8);
                        (v, to, rec.src, "bit_flip")
                    }
                    Mutation::Truncate(l) => (rec.bytes[..*l].to_vec(), to, rec.src, "truncate"),
                    Mutation::Insert(o, byte) => {
                        let mut v = rec.bytes.clone();
                        v.insert(*o, *byte);
                        (v, to, rec.src, "insert_byte")
                    }
                    Mutation::Splice(other) => {
                        // header (IV + masked header up to the body) of this datagram with the body of another
                        let o = &w.wire[*other];
                        let split = |r: &WireRec| r.dec.as_ref().map(|d| r.bytes.len() - d.message.len()).unwrap_or(r.bytes.len() / 2);
                        let mut v = rec.bytes[..split(&rec)].to_vec();
                        v.extend_from_slice(&o.bytes[split(o)..]);
                        (v, to, rec.src, "splice")
                    }
                    Mutation::Misdeliver(n) => (rec.bytes.clone(), *n, rec.src, "misdeliver"),
                    Mutation::Remask(n) => match &rec.dec {
                        Some(d) => (toolkit::encode_packet(d.iv, d.message_nonce, d.kind.clone(), d.message.clone(), &w.nodes[*n].id), *n, rec.src, "remask_for_other_node"),
                        None => (rec.bytes.clone(), *n, rec.src, "misdeliver"),
                    },
                    Mutation::GrowAuthData(k) => match &rec.dec {
                        Some(d) => {
                            let auth_len = rec.bytes.len() - 16 - 23 - d.message.len();
                            let new_len = auth_len + k;
                            let mut v = rec.bytes.clone();
                            let x = (auth_len as u16) ^ (new_len as u16);
                            v[16 + 21] ^= (x >> 8) as u8;
                            v[16 + 22] ^= (x & 0xff) as u8;
                            let at = 16 + 23 + auth_len;
                            for i in 0..*k {
                                v.insert(at + i, 0x3c ^ i as u8);
                            }
                            (v, to, rec.src, "grow_auth_data")
                        }
                        None => (rec.bytes.clone(), to, rec.src, "grow_auth_data"),
                    },
                    Mutation::SpoofAdvertised => {
                        let e = &w.nodes[from].enr;
                        let adv = e.udp4_socket().map(SocketAddr::V4).or(e.udp6_socket().map(SocketAddr::V6)).unwrap_or(rec.src);
                        (rec.bytes.clone(), to, adv, "advertised_source")
                    }
                    Mutation::SpoofPort => {
                        let mut src = rec.src;
                        src.set_port(rec.src.port().wrapping_add(7));
                        (rec.bytes.clone(), to, src, "same_ip_other_port")
                    }
                    Mutation::SpoofMapped => {
                        let src = match rec.src {
                            std::net::SocketAddr::V4(a) => std::net::SocketAddr::new(std::net::IpAddr::V6(a.ip().to_ipv6_mapped()), a.port()),
                            other => other,
                        };
                        (rec.bytes.clone(), to, src, "mapped_alias_of_source")
                    }
                    Mutation::SpoofSource => {
                        let other = (from + 1 + (to == (from + 1) % 3) as usize) % 3;
                        (rec.bytes.clone(), to, w.nodes[other].addr, "spoofed_source")
                    }
                };
                // misdelivery of an unchanged datagram to its real destination from its real source is no fault
                let unchanged = bytes == rec.bytes && to2 == to && src == rec.src;
                if unchanged {
                    w.route(ctx, wi);
                    continue;
                }
                ctx.fault(how);
                mutated += 1;
                ctx.ev(format!("t={} n{from}->n{to} {what} len={len} MUTATED {m:?} -> n{to2} from {src}", now_ms()));
                w.schedule(1, Ev::Deliver { to: to2, src, bytes, origin: Origin::Mutated { wire: wi, how } });
                // exploration: sometimes the genuine datagram arrives as well
                if !enumerate && ctx.tape.choose(3) == 0 {
                    w.route(ctx, wi);
                }
            }
            Obs::Sched(Ev::Deliver { to, src, bytes, origin }) => {
                if w.nodes[to].alive {
                    if let Ok(d) = toolkit::decode_packet(&w.nodes[to].id, &bytes) {
                        if let PacketKind::Handshake { src_id, ephem_pubkey, .. } = d.kind {
                            hs_in.push((to, src, src_id, ephem_pubkey));
                        }
                    }
                    w.deliver(to, src, bytes, origin);
                }
            }
            Obs::Sched(Ev::Custom(x)) => match x {
                X::Submit { node, peer, with_enr, body } => {
                    let id = next_rid;
                    next_rid += 1;
                    ctx.ev(format!("t={} n{node} submit r{id} -> n{peer} {body} enr={with_enr}", now_ms()));
                    let contact = w.contact(peer, with_enr);
                    w.send_in(node, HandlerIn::Request(contact, Box::new(Request { id: rid(id), body })));
                }
                X::AppWhoAreYou { node, wref, enr } => {
                    w.send_in(node, HandlerIn::WhoAreYou(wref, enr));
                }
                X::AppRespond { node, to, resp } => {
                    w.send_in(node, HandlerIn::Response(to, Box::new(resp)));
                }
                X::ForgedMessage { at, claimed_peer, key_byte } => {
                    let kind = PacketKind::Message { src_id: w.nodes[claimed_peer].id };
                    let nonce = [0x6bu8; 12];
                    let iv = 0x0f0e_0d0c_0b0a_0908_0706_0504_0302_0100u128;
                    let aad = toolkit::authenticated_data(iv, nonce, kind.clone());
                    let msg = Request { id: rid(0xF0F0), body: RequestBody::Talk { protocol: b"forged".to_vec(), request: b"not from the peer".to_vec() } }.encode();
                    if let Some(ct) = toolkit::encrypt(&[key_byte; 16], nonce, &msg, &aad) {
                        let bytes = toolkit::encode_packet(iv, nonce, kind, ct, &w.nodes[at].id);
                        ctx.fault("forged_message_under_trivial_key");
                        mutated += 1;
                        ctx.ev(format!("t={} FORGED message at n{at} in the name of n{claimed_peer}, sealed with key {key_byte:#04x}..", now_ms()));
                        let src = w.nodes[claimed_peer].addr;
                        w.deliver(at, src, bytes, Origin::Injected { tag: "forged-message" });
                    }
                }
                X::SessionLoss { at, claimed_peer } => {
                    let bytes = toolkit::encode_packet(7, [9u8; 12], PacketKind::Message { src_id: w.nodes[claimed_peer].id }, vec![0x5a; 44], &w.nodes[at].id);
                    ctx.ev(format!("t={} inject undecryptable MSG at n{at} as n{claimed_peer}", now_ms()));
                    let src = w.nodes[claimed_peer].addr;
                    w.deliver(at, src, bytes, Origin::Injected { tag: "undecryptable" });
                }
            },
            Obs::Out { node, ev } => {
                let t = now_ms();
                match ev {
                    HandlerOut::WhoAreYou(wref) => {
                        let enr = if base % 2 == 1 { w.known_record(&wref.0.node_id) } else { None };
                        w.schedule(0, Ev::Custom(X::AppWhoAreYou { node, wref, enr }));
                    }
                    HandlerOut::Request(from, req) => {
                        ctx.ev(format!("t={t} n{node} out Request({}) from {} @ {}", req.body, short_id(&from.node_id), from.socket_addr));
                        check_delivery(ctx, &w, &session_addr, node, &from, Message::Request((*req).clone()));
                        let total = if matches!(&req.body, RequestBody::FindNode { distances } if distances.as_slice() != [0]) { 2 } else { 1 };
                        // explored runs: a peer that writes its own plaintext (nothing obliges a peer to use this crate's
                        // encoder). It seals, under its genuine session keys, a NODES answer in which one of three records
                        // is damaged (a bit of its signature): whatever the receiver does with such a message, it must not
                        // hand its application a message the peer did not encrypt.
                        let is_find = matches!(&req.body, RequestBody::FindNode { distances } if distances.as_slice() != [0]);
                        if !enumerate && is_find && ctx.tape.choose(4) == 0 {
                            let recs: Vec<Enr> = (0..3).map(|i| w.nodes[(node + i) % 3].enr.clone()).collect();
                            let bad = ctx.tape.choose(3) as usize;
                            let mut pt = Message::Response(Response { id: req.id.clone(), body: ResponseBody::Nodes { total: 1, nodes: recs.clone() } }).encode();
                            let sig = recs[bad].signature().to_vec();
                            let key = w.keylog.iter().rev().find(|(_, k)| k.local == w.nodes[node].id && k.remote == from.node_id).map(|(_, k)| k.encryption_key);
                            let pos = pt.windows(sig.len()).position(|x| x == &sig[..]);
                            if let (Some(pos), Some(key), Some(to)) = (pos, key, w.node_by_id(&from.node_id)) {
                                pt[pos + 5] ^= 0x10;
                                handmade += 1;
                                let kind = PacketKind::Message { src_id: w.nodes[node].id };
                                let mut nonce = [0xc7u8; 12];
                                nonce[0] = handmade as u8;
                                let iv = 0x5151_0000_0000_0000_0000_0000_0000_0000u128 + handmade as u128;
                                let aad = toolkit::authenticated_data(iv, nonce, kind.clone());
                                if let Some(ct) = toolkit::encrypt(&key, nonce, &pt, &aad) {
                                    let bytes = toolkit::encode_packet(iv, nonce, kind, ct, &w.nodes[to].id);
                                    ctx.fault("peer_seals_handmade_plaintext_with_damaged_record");
                                    ctx.ev(format!("t={t} n{node} seals a hand-made NODES answer (record {bad} of 3 damaged) for n{to}"));
                                    let out = (from.socket_addr, w.nodes[to].id, bytes);
                                    let wi = w.tap(ctx, node, &out);
                                    w.route(ctx, wi);
                                    continue;
                                }
                            }
                        }
                        for mut resp in w.default_response(node, &from, &req, total) {
                            if let (Some(t), ResponseBody::Nodes { total, .. }) = (announced_total, &mut resp.body) {
                                if *total > 1 {
                                    *total = t;
                                }
                            }
                            w.schedule(0, Ev::Custom(X::AppRespond { node, to: from.clone(), resp }));
                        }
                    }
                    HandlerOut::Response(from, resp) => {
                        ctx.ev(format!("t={t} n{node} out Response r{} from {}", rid_num(&resp.id), short_id(&from.node_id)));
                        check_delivery(ctx, &w, &session_addr, node, &from, Message::Response((*resp).clone()));
                    }
                    HandlerOut::RequestFailed(id, e) => ctx.ev(format!("t={t} n{node} out RequestFailed r{} {e:?}", rid_num(&id))),
                    HandlerOut::Established(e, a, d) => ctx.ev(format!("t={t} n{node} out Established({}, {a}, {d:?})", short_id(&e.node_id()))),
                    _ => {}
                }
            }
        }
    }
    if mutated > 0 {
        ctx.nontrivial = true;
    }
    ctx.sample = Some(serde_json::json!({"base": base, "mutated_datagrams": mutated, "datagrams": w.wire.len()}));
    w.shutdown();
}

/// The C02 oracle for one delivered message.
fn check_delivery(ctx: &mut Ctx, w: &HWorld<X>, session_addr: &std::collections::BTreeMap<usize, std::net::SocketAddr>, receiver: usize, from: &NodeAddress, msg: Message) {
    ctx.count("deliveries_checked");
    let Some(p) = w.node_by_id(&from.node_id) else {
        ctx.fail("c02.delivered-from-unknown-id", format!("n{receiver} delivered a message attributed to unknown id {}", short_id(&from.node_id)), &[]);
        return;
    };
    // Attribution is (node id, observed source address). A relay that consistently rewrites the
    // source address of a whole handshake is indistinguishable from a NAT: the peer really signed
    // this node's challenge, so its messages are attributed to the address they are presented from.
    // What must hold is that the carrier was presented from exactly the attributed address.
    let enc = msg.clone().encode();
    let rid_of = match &msg {
        Message::Request(r) => rid_num(&r.id),
        Message::Response(r) => rid_num(&r.id),
    };
    let carried = w.inbound[receiver].iter().any(|rec| {
        // the carrier: the unmodified bytes of a datagram that n{p}'s handler emitted towards this
        // receiver, presented from exactly the attributed address
        let wire = match &rec.origin {
            Origin::Genuine { wire, from: f } if *f == p => *wire,
            Origin::Mutated { wire, how } if *how == "spoofed_source" && w.wire[*wire].from == p => *wire,
            _ => return false,
        };
        let wr = &w.wire[wire];
        rec.src == from.socket_addr
            && wr.dst_id == w.nodes[receiver].id
            && wr.bytes == rec.bytes
            && wr.dec.as_ref().and_then(|d| w.decrypt_with_log(d, &w.nodes[p].id)).map(|(_, pt)| pt == enc).unwrap_or(false)
    });
    // the session that decrypts the carrier must have been established with the attributed address
    // (handshake received from / sent to it): a datagram of a session with P at address A that is
    // presented from address B must not be delivered as coming from (P, B)
    if carried {
        let rid_key = w.nodes[receiver].id;
        // all (datagram, session) pairs that could have carried the message from the attributed address: the
        // same request can travel in several datagrams (sent, replayed under new keys, carried in a handshake),
        // some of which the receiver ignored; it is wrong only if none of them belongs to a session that was
        // established with the attributed address
        let mut session_addrs: Vec<Option<SocketAddr>> = vec![];
        for rec in w.inbound[receiver].iter().filter(|rec| rec.src == from.socket_addr) {
            let Ok(d) = toolkit::decode_packet(&rid_key, &rec.bytes) else { continue };
            if matches!(d.kind, PacketKind::WhoAreYou { .. }) {
                continue;
            }
            for (i, (_, k)) in w.keylog.iter().enumerate() {
                if k.local == rid_key && k.remote == from.node_id {
                    if let Some(pt) = toolkit::decrypt(&k.decryption_key, d.message_nonce, &d.message, &d.authenticated_data) {
                        if pt == enc {
                            session_addrs.push(session_addr.get(&i).copied());
                        }
                    }
                }
            }
        }
        let justified = session_addrs.iter().any(|a| a.map(|a| a == from.socket_addr).unwrap_or(true));
        if !session_addrs.is_empty() && !justified {
            let a = session_addrs.iter().flatten().next().copied().unwrap();
            ctx.fail(
                "c02.wrong-source-address",
                format!("n{receiver} delivered message r{rid_of} as coming from n{p} at {}, but it decrypts only under a session that was established with n{p} at {a}", from.socket_addr),
                &[],
            );
            return;
        }
    }
    if !carried {
        // which inbound datagram did carry it?
        let culprit = w.inbound[receiver]
            .iter()
            .rev()
            .find(|rec| !matches!(rec.origin, Origin::Genuine { .. }))
            .map(|rec| format!("{:?}", rec.origin))
            .unwrap_or_else(|| "none".into());
        ctx.fail(
            "c02.delivered-message-not-genuine",
            format!("n{receiver} delivered message r{rid_of} as coming from n{p}, but no unmodified datagram of n{p}'s handler addressed to n{receiver}, arriving from n{p}'s address and decrypting to that message, was delivered before (last non-genuine inbound: {culprit})"),
            &[],
        );
    }
}
