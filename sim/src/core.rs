//! Run context, event log, violation record and the per-run executor.

use crate::{interpose, prng::Prng, tape::Tape};
use serde_json::{json, Value};
use std::{cell::RefCell, collections::BTreeMap};

#[derive(Clone, Copy, PartialEq, Eq, Debug)]
pub enum Tier {
    Quick,
    Thorough,
}
impl Tier {
    pub fn name(self) -> &'static str {
        match self {
            Tier::Quick => "quick",
            Tier::Thorough => "thorough",
        }
    }
}

#[derive(Clone, Debug)]
pub struct Violation {
    /// Stable identifier of the oracle clause that failed (used for shrinking and known findings).
    pub clause: String,
    pub detail: String,
    /// Cause tags derived by the oracle from the failing history.
    pub tags: Vec<String>,
}

pub const TRACE_CAP: usize = 4000;

pub struct Ctx {
    pub tape: Tape,
    pub tier: Tier,
    pub scenario: &'static str,
    /// index of this run within the check (enumerating scenarios derive their case from it)
    pub run_index: u64,
    pub violation: Option<Violation>,
    pub nontrivial: bool,
    pub faults: BTreeMap<&'static str, u64>,
    pub counters: BTreeMap<&'static str, u64>,
    pub trace: Vec<String>,
    pub steps: u64,
    hash: u64,
    pub sim_ns: u64,
    pub sample: Option<Value>,
}

impl Ctx {
    pub fn new(tape: Tape, tier: Tier, scenario: &'static str) -> Self {
        Ctx {
            tape,
            tier,
            scenario,
            run_index: 0,
            violation: None,
            nontrivial: false,
            faults: BTreeMap::new(),
            counters: BTreeMap::new(),
            trace: Vec::new(),
            steps: 0,
            hash: 0xcbf2_9ce4_8422_2325,
            sim_ns: 0,
            sample: None,
        }
    }

    /// Record an abstract event: hashed into the interleaving fingerprint and kept for traces.
    pub fn ev(&mut self, s: impl AsRef<str>) {
        let s = s.as_ref();
        for b in s.bytes() {
            self.hash ^= b as u64;
            self.hash = self.hash.wrapping_mul(0x0000_0100_0000_01B3);
        }
        self.hash ^= 0xff;
        self.hash = self.hash.wrapping_mul(0x0000_0100_0000_01B3);
        self.steps += 1;
        if self.trace.len() < TRACE_CAP {
            self.trace.push(s.to_string());
        }
    }

    pub fn fault(&mut self, kind: &'static str) {
        *self.faults.entry(kind).or_insert(0) += 1;
        self.nontrivial = true;
    }
    pub fn count(&mut self, what: &'static str) {
        *self.counters.entry(what).or_insert(0) += 1;
    }

    pub fn fail(&mut self, clause: &str, detail: impl Into<String>, tags: &[&str]) {
        if self.violation.is_none() {
            let detail = detail.into();
            self.ev(format!("VIOLATION {clause}: {detail}"));
            self.violation = Some(Violation {
                clause: clause.to_string(),
                detail,
                tags: tags.iter().map(|s| s.to_string()).collect(),
            });
        }
    }
    pub fn failed(&self) -> bool {
        self.violation.is_some()
    }
    pub fn fingerprint(&self) -> u64 {
        self.hash
    }
}

pub type ScenarioFn = fn(&mut Ctx);

pub struct Scenario {
    pub name: &'static str,
    /// relative share of the runs
    pub weight: u32,
    pub run: ScenarioFn,
}

pub struct CheckSpec {
    pub id: &'static str,
    pub level: &'static str,
    pub scenarios: &'static [Scenario],
    pub runs_quick: u64,
    pub runs_thorough: u64,
    /// wall-clock cap per tier in seconds (workers stop starting new runs after it)
    pub cap_quick_s: u64,
    pub cap_thorough_s: u64,
    pub rule: &'static str,
    pub components_real: &'static [&'static str],
    pub components_stub: &'static [&'static str],
    pub assumptions: &'static [&'static str],
    /// (scenario name, number of cases) of a completely enumerable fault subspace, if any
    pub enumerated: Option<(&'static str, u64)>,
}

impl CheckSpec {
    pub fn scenario_for(&self, run: u64) -> &'static Scenario {
        let total: u32 = self.scenarios.iter().map(|s| s.weight).sum();
        let mut k = (run % total as u64) as u32;
        for s in self.scenarios {
            if k < s.weight {
                return s;
            }
            k -= s.weight;
        }
        &self.scenarios[0]
    }
    pub fn scenario_named(&self, name: &str) -> Option<&'static Scenario> {
        self.scenarios.iter().find(|s| s.name == name)
    }
}

#[derive(Clone, Debug)]
pub struct RunOutput {
    pub run: u64,
    pub scenario: &'static str,
    pub violation: Option<Violation>,
    pub nontrivial: bool,
    pub fingerprint: u64,
    pub faults: BTreeMap<&'static str, u64>,
    pub counters: BTreeMap<&'static str, u64>,
    pub probes: BTreeMap<&'static str, u64>,
    pub trace: Vec<String>,
    pub tape: Vec<u32>,
    pub steps: u64,
    pub sim_ns: u64,
    pub sample: Option<Value>,
    pub rng_bytes: u64,
}

thread_local! {
    static PANIC_MSG: RefCell<Option<String>> = const { RefCell::new(None) };
}

pub fn install_panic_hook() {
    std::panic::set_hook(Box::new(|info| {
        let msg = if let Some(s) = info.payload().downcast_ref::<&str>() {
            s.to_string()
        } else if let Some(s) = info.payload().downcast_ref::<String>() {
            s.clone()
        } else {
            "panic".to_string()
        };
        if msg == EXPECTED_PANIC {
            return;
        }
        let loc = info.location().map(|l| format!("{}:{}", l.file(), l.line())).unwrap_or_default();
        let full = format!("{msg} @ {loc}");
        let _ = PANIC_MSG.try_with(|p| {
            let mut p = p.borrow_mut();
            if p.is_none() {
                *p = Some(full.clone());
            }
        });
        if std::env::var_os("VERIF_PANIC_STDERR").is_some() {
            eprintln!("panic: {full}");
        }
    }));
}

/// Message of panics the harness raises on purpose (an application that panics while it holds something of
/// the SUT): the hook ignores them.
pub const EXPECTED_PANIC: &str = "dsim: application panics on purpose";

/// Runs `f`, which is expected to panic with `EXPECTED_PANIC`, and swallows that panic.
pub fn with_expected_panic<F: FnOnce()>(f: F) {
    let _ = std::panic::catch_unwind(std::panic::AssertUnwindSafe(f));
}

pub fn take_panic() -> Option<String> {
    PANIC_MSG.with(|p| p.borrow_mut().take())
}

/// Execute one run on a fresh OS thread (fresh thread-locals: hash keys, ThreadRng, probes).
pub fn execute(spec: &'static CheckSpec, scenario: &'static Scenario, tier: Tier, seed: u64, run: u64, tape: Option<Vec<u32>>) -> RunOutput {
    let id = spec.id;
    let handle = std::thread::Builder::new()
        .stack_size(16 << 20)
        .spawn(move || {
            interpose::set_rng(Some(Prng::derive(seed, &format!("sut:{id}"), run)));
            let t = match tape {
                Some(v) => Tape::replay(v),
                None => Tape::generate(Prng::derive(seed, &format!("tape:{id}"), run)),
            };
            let mut ctx = Ctx::new(t, tier, scenario.name);
            ctx.run_index = run;
            let r = std::panic::catch_unwind(std::panic::AssertUnwindSafe(|| (scenario.run)(&mut ctx)));
            let panic_msg = take_panic();
            if let Some(m) = panic_msg {
                // a panic anywhere on the run thread (SUT task or harness) is a violation
                // harness code reports relative paths (src/...), the SUT /repo/src/..., dependencies the cargo registry
                let harness = m.contains("/verif/sim/") || m.contains("@ src/");
                ctx.fail(if harness { "harness-panic" } else { "sut-panic" }, m, &["panic"]);
            } else if r.is_err() {
                ctx.fail("sut-panic", "panic without message", &["panic"]);
            }
            if ctx.sim_ns == 0 {
                ctx.sim_ns = interpose::sim_now_ns();
            }
            let rng_bytes = interpose::rng_bytes_served();
            interpose::clock_off();
            interpose::set_rng(None);
            let probes = discv5::verif::take_probes();
            discv5::verif::reset_globals();
            RunOutput {
                run,
                scenario: scenario.name,
                fingerprint: ctx.fingerprint(),
                violation: ctx.violation,
                nontrivial: ctx.nontrivial,
                faults: ctx.faults,
                counters: ctx.counters,
                probes,
                trace: ctx.trace,
                tape: ctx.tape.rec,
                steps: ctx.steps,
                sim_ns: ctx.sim_ns,
                sample: ctx.sample,
                rng_bytes,
            }
        })
        .expect("spawn run thread");
    match handle.join() {
        Ok(o) => o,
        Err(_) => RunOutput {
            run,
            scenario: scenario.name,
            fingerprint: 0,
            violation: Some(Violation { clause: "harness-panic".into(), detail: "run thread died".into(), tags: vec!["panic".into()] }),
            nontrivial: false,
            faults: BTreeMap::new(),
            counters: BTreeMap::new(),
            probes: BTreeMap::new(),
            trace: vec![],
            tape: vec![],
            steps: 0,
            sim_ns: 0,
            sample: None,
            rng_bytes: 0,
        },
    }
}

pub fn violation_json(v: &Violation) -> Value {
    json!({"clause": v.clause, "detail": v.detail, "tags": v.tags})
}
