//! Link-time interposition of the two OS sources of nondeterminism the SUT reads:
//! `clock_gettime` (std::time::Instant) and `getrandom` (rand, key generation, std HashMap keys).
//! Both fall through to the real system call unless the current thread activated simulation.

use crate::prng::Prng;
use std::cell::{Cell, RefCell};

/// Simulated monotonic clock origin, in nanoseconds (far from 0 so `Instant - Duration` works).
pub const BASE_NS: u64 = 1_000_000_000_000_000;

#[derive(Clone, Copy, PartialEq)]
pub enum ClockMode {
    Off,
    /// Harness-owned clock in ns since BASE.
    Manual,
    /// Follows tokio's paused clock.
    Tokio,
}

thread_local! {
    static MODE: Cell<ClockMode> = const { Cell::new(ClockMode::Off) };
    static MANUAL_NS: Cell<u64> = const { Cell::new(0) };
    static LAST_NS: Cell<u64> = const { Cell::new(0) };
    static IN_CLOCK: Cell<bool> = const { Cell::new(false) };
    static TOKIO_EPOCH: Cell<Option<tokio::time::Instant>> = const { Cell::new(None) };
    static RNG: RefCell<Option<Prng>> = const { RefCell::new(None) };
    static RNG_BYTES: Cell<u64> = const { Cell::new(0) };
}

pub fn set_clock_manual(ns: u64) {
    MODE.with(|m| m.set(ClockMode::Manual));
    MANUAL_NS.with(|c| c.set(ns));
}
pub fn manual_now_ns() -> u64 {
    MANUAL_NS.with(|c| c.get())
}
pub fn advance_manual(ns: u64) {
    MANUAL_NS.with(|c| c.set(c.get() + ns));
}
/// Must be called inside a paused tokio runtime.
pub fn set_clock_tokio() {
    TOKIO_EPOCH.with(|e| e.set(Some(tokio::time::Instant::now())));
    MODE.with(|m| m.set(ClockMode::Tokio));
}
pub fn clock_off() {
    MODE.with(|m| m.set(ClockMode::Off));
}
/// Simulated ns since the run started (either mode).
pub fn sim_now_ns() -> u64 {
    match MODE.with(|m| m.get()) {
        ClockMode::Off => 0,
        ClockMode::Manual => manual_now_ns(),
        ClockMode::Tokio => tokio_ns(),
    }
}
pub fn sim_now_ms() -> u64 {
    sim_now_ns() / 1_000_000
}

fn tokio_ns() -> u64 {
    if IN_CLOCK.with(|f| f.replace(true)) {
        return LAST_NS.with(|l| l.get());
    }
    let v = match TOKIO_EPOCH.with(|e| e.get()) {
        Some(epoch) => {
            let have_rt = tokio::runtime::Handle::try_current().is_ok();
            if have_rt {
                let d = tokio::time::Instant::now().saturating_duration_since(epoch);
                d.as_nanos() as u64
            } else {
                LAST_NS.with(|l| l.get())
            }
        }
        None => 0,
    };
    LAST_NS.with(|l| l.set(v));
    IN_CLOCK.with(|f| f.set(false));
    v
}

pub fn set_rng(p: Option<Prng>) {
    RNG.with(|r| *r.borrow_mut() = p);
    RNG_BYTES.with(|c| c.set(0));
}
/// Runs `f` with the interposed RNG temporarily replaced by `p` (used to make harness-side
/// record signing a pure function of its parameters, independent of the run's SUT stream).
pub fn with_rng<T>(p: Prng, f: impl FnOnce() -> T) -> T {
    let saved = RNG.with(|r| r.borrow_mut().replace(p));
    let bytes = RNG_BYTES.with(|c| c.get());
    let out = f();
    RNG.with(|r| *r.borrow_mut() = saved);
    RNG_BYTES.with(|c| c.set(bytes));
    out
}
pub fn rng_bytes_served() -> u64 {
    RNG_BYTES.with(|c| c.get())
}

#[no_mangle]
pub unsafe extern "C" fn clock_gettime(clk: libc::clockid_t, ts: *mut libc::timespec) -> libc::c_int {
    let mode = MODE.try_with(|m| m.get()).unwrap_or(ClockMode::Off);
    if mode != ClockMode::Off && (clk == libc::CLOCK_MONOTONIC || clk == libc::CLOCK_BOOTTIME || clk == libc::CLOCK_MONOTONIC_RAW) {
        let ns = BASE_NS
            + match mode {
                ClockMode::Manual => manual_now_ns(),
                _ => tokio_ns(),
            };
        (*ts).tv_sec = (ns / 1_000_000_000) as libc::time_t;
        (*ts).tv_nsec = (ns % 1_000_000_000) as _;
        return 0;
    }
    libc::syscall(libc::SYS_clock_gettime, clk as libc::c_long, ts) as libc::c_int
}

#[no_mangle]
pub unsafe extern "C" fn getrandom(buf: *mut libc::c_void, len: libc::size_t, flags: libc::c_uint) -> libc::ssize_t {
    let served = RNG
        .try_with(|r| {
            if let Ok(mut g) = r.try_borrow_mut() {
                if let Some(p) = g.as_mut() {
                    let slice = std::slice::from_raw_parts_mut(buf as *mut u8, len);
                    p.fill(slice);
                    return true;
                }
            }
            false
        })
        .unwrap_or(false);
    if served {
        let _ = RNG_BYTES.try_with(|c| c.set(c.get() + len as u64));
        return len as libc::ssize_t;
    }
    libc::syscall(libc::SYS_getrandom, buf, len, flags) as libc::ssize_t
}
