//! dsim — deterministic simulation of sigp/discv5 with fault injection.
//!
//!   dsim check <ID> [--tier quick|thorough] [--seed N] [--runs N] [--workers N] [--cap S] [--no-evidence]
//!   dsim replay <file> [--quiet]
//!   dsim one <ID> --run N [--seed N] [--tier T]      (print the trace of one run)
//!   dsim fingerprints <ID> --runs N [--seed N]       (determinism proof helper: prints run -> log hash)
//!   dsim list

mod checks;
mod core;
mod driver;
mod ident;
mod interpose;
mod prng;
mod tape;
mod worlds;

use crate::core::Tier;

fn arg_val(args: &[String], name: &str) -> Option<String> {
    args.iter().position(|a| a == name).and_then(|i| args.get(i + 1).cloned())
}

fn main() {
    crate::core::install_panic_hook();
    let args: Vec<String> = std::env::args().collect();
    let cmd = args.get(1).map(|s| s.as_str()).unwrap_or("");
    let env_seed = std::env::var("VERIF_SEED").ok().and_then(|s| s.parse::<u64>().ok());
    let seed = arg_val(&args, "--seed").and_then(|s| s.parse().ok()).or(env_seed).unwrap_or(1);
    let tier_s = arg_val(&args, "--tier").or_else(|| std::env::var("VERIF_TIER").ok()).unwrap_or_else(|| "quick".into());
    let tier = if tier_s == "thorough" { Tier::Thorough } else { Tier::Quick };
    let code = match cmd {
        "list" => {
            for c in checks::ALL {
                println!("{} scenarios={:?}", c.id, c.scenarios.iter().map(|s| s.name).collect::<Vec<_>>());
            }
            0
        }
        "check" => {
            let Some(spec) = args.get(2).and_then(|s| checks::lookup(s)) else {
                eprintln!("HARNESS-ERROR: unknown check");
                std::process::exit(2);
            };
            let workers = arg_val(&args, "--workers").and_then(|s| s.parse().ok()).unwrap_or_else(|| std::thread::available_parallelism().map(|n| n.get() as u64).unwrap_or(8).min(16));
            driver::parent(
                spec,
                driver::ParentOpts {
                    tier,
                    seed,
                    workers,
                    runs: arg_val(&args, "--runs").and_then(|s| s.parse().ok()),
                    cap_s: arg_val(&args, "--cap").and_then(|s| s.parse().ok()),
                    write_evidence: !args.iter().any(|a| a == "--no-evidence"),
                },
            )
        }
        "worker" => {
            let spec = checks::lookup(&args[2]).expect("check");
            let g = |n: &str| arg_val(&args, n).and_then(|s| s.parse::<u64>().ok()).expect("worker arg");
            driver::worker(spec, tier, seed, g("--start"), g("--end"), g("--step"), g("--cap"));
            0
        }
        "replay" => driver::replay(&args[2], args.iter().any(|a| a == "--quiet"), |id| checks::lookup(id)),
        "one" => {
            let spec = checks::lookup(&args[2]).expect("check");
            let run: u64 = arg_val(&args, "--run").and_then(|s| s.parse().ok()).unwrap_or(0);
            let sc = spec.scenario_for(run);
            let out = crate::core::execute(spec, sc, tier, seed, run, None);
            for l in &out.trace {
                println!("{l}");
            }
            println!("# scenario={} fingerprint={:016x} steps={} sim_ms={} faults={:?} counters={:?} probes={:?} rng_bytes={} violation={:?}", sc.name, out.fingerprint, out.steps, out.sim_ns / 1_000_000, out.faults, out.counters, out.probes, out.rng_bytes, out.violation);
            0
        }
        "fingerprints" => {
            let spec = checks::lookup(&args[2]).expect("check");
            let runs: u64 = arg_val(&args, "--runs").and_then(|s| s.parse().ok()).unwrap_or(100);
            let start: u64 = arg_val(&args, "--start").and_then(|s| s.parse().ok()).unwrap_or(0);
            for run in start..start + runs {
                let sc = spec.scenario_for(run);
                let out = crate::core::execute(spec, sc, tier, seed, run, None);
                println!("{run} {} {:016x} {} {} {}", sc.name, out.fingerprint, out.steps, out.sim_ns, out.violation.as_ref().map(|v| v.clause.clone()).unwrap_or_default());
            }
            0
        }
        _ => {
            eprintln!("usage: dsim check|replay|one|fingerprints|list ...");
            2
        }
    };
    std::process::exit(code);
}
