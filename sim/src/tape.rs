//! Choice tape: every decision the harness takes is `tape.choose(n)`.
//! Generation mode draws from the run's PRNG and records; replay mode reads a recorded tape and
//! returns 0 ("simplest choice") once it is exhausted.

use crate::prng::Prng;

pub struct Tape {
    gen: Option<Prng>,
    replay: Vec<u32>,
    pos: usize,
    pub rec: Vec<u32>,
}

impl Tape {
    pub fn generate(prng: Prng) -> Self {
        Tape { gen: Some(prng), replay: vec![], pos: 0, rec: vec![] }
    }
    pub fn replay(values: Vec<u32>) -> Self {
        Tape { gen: None, replay: values, pos: 0, rec: vec![] }
    }

    /// A value in `0..n` (n >= 1).
    pub fn choose(&mut self, n: u32) -> u32 {
        let n = n.max(1);
        let v = match self.gen.as_mut() {
            Some(p) => p.below(n),
            None => {
                let v = self.replay.get(self.pos).copied().unwrap_or(0);
                self.pos += 1;
                v.min(n - 1)
            }
        };
        self.rec.push(v);
        v
    }

    /// True with probability num/den.
    pub fn chance(&mut self, num: u32, den: u32) -> bool {
        // value 0 must be the "simple" choice (false), so test the top of the range
        self.choose(den) >= den - num.min(den)
    }

    pub fn range(&mut self, lo: u32, hi_incl: u32) -> u32 {
        lo + self.choose(hi_incl - lo + 1)
    }

    pub fn pick<'a, T>(&mut self, items: &'a [T]) -> &'a T {
        &items[self.choose(items.len() as u32) as usize]
    }
}
