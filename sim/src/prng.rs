//! Small deterministic PRNG (xoshiro256** seeded through SplitMix64). No external state.

#[derive(Clone, Debug)]
pub struct Prng {
    s: [u64; 4],
}

pub fn splitmix(x: &mut u64) -> u64 {
    *x = x.wrapping_add(0x9E37_79B9_7F4A_7C15);
    let mut z = *x;
    z = (z ^ (z >> 30)).wrapping_mul(0xBF58_476D_1CE4_E5B9);
    z = (z ^ (z >> 27)).wrapping_mul(0x94D0_49BB_1331_11EB);
    z ^ (z >> 31)
}

/// FNV-1a over a string, used to derive independent streams from labels.
pub fn label_hash(s: &str) -> u64 {
    let mut h: u64 = 0xcbf2_9ce4_8422_2325;
    for b in s.bytes() {
        h ^= b as u64;
        h = h.wrapping_mul(0x0000_0100_0000_01B3);
    }
    h
}

impl Prng {
    pub fn new(seed: u64) -> Self {
        let mut x = seed;
        let s = [splitmix(&mut x), splitmix(&mut x), splitmix(&mut x), splitmix(&mut x)];
        Prng { s }
    }

    /// Independent stream for (seed, label, index).
    pub fn derive(seed: u64, label: &str, index: u64) -> Self {
        let mut x = seed ^ label_hash(label).rotate_left(17) ^ index.wrapping_mul(0xD6E8_FEB8_6659_FD93);
        let a = splitmix(&mut x);
        Prng::new(a ^ index)
    }

    pub fn next_u64(&mut self) -> u64 {
        let result = self.s[1].wrapping_mul(5).rotate_left(7).wrapping_mul(9);
        let t = self.s[1] << 17;
        self.s[2] ^= self.s[0];
        self.s[3] ^= self.s[1];
        self.s[1] ^= self.s[2];
        self.s[0] ^= self.s[3];
        self.s[2] ^= t;
        self.s[3] = self.s[3].rotate_left(45);
        result
    }

    pub fn below(&mut self, n: u32) -> u32 {
        if n <= 1 {
            return 0;
        }
        ((self.next_u64() >> 32) * n as u64 >> 32) as u32
    }

    pub fn fill(&mut self, buf: &mut [u8]) {
        for chunk in buf.chunks_mut(8) {
            let v = self.next_u64().to_le_bytes();
            chunk.copy_from_slice(&v[..chunk.len()]);
        }
    }
}
