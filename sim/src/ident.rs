//! Deterministic identity pool (secp256k1 keys from fixed bytes) and cached ENR construction.
//! Keys and records are pure functions of their parameters (RFC 6979 signatures), so the
//! process-wide cache never changes behaviour, only cost.

use crate::prng::Prng;
use discv5::{
    enr::{CombinedKey, NodeId},
    Enr,
};
use std::{
    collections::HashMap,
    net::{Ipv4Addr, Ipv6Addr},
    sync::{Mutex, OnceLock},
};

pub const POOL: usize = 192;

pub struct Identity {
    pub secret: [u8; 32],
    pub id: NodeId,
}

impl Identity {
    pub fn key(&self) -> CombinedKey {
        let mut b = self.secret;
        CombinedKey::secp256k1_from_bytes(&mut b).expect("valid key bytes")
    }
}

pub fn pool() -> &'static Vec<Identity> {
    static P: OnceLock<Vec<Identity>> = OnceLock::new();
    P.get_or_init(|| crate::interpose::with_rng(Prng::new(0x0BAD_5EED), || {
        let mut prng = Prng::new(0x1DE7_7177);
        let mut v = Vec::with_capacity(POOL);
        while v.len() < POOL {
            let mut secret = [0u8; 32];
            prng.fill(&mut secret);
            let mut b = secret;
            if let Ok(k) = CombinedKey::secp256k1_from_bytes(&mut b) {
                let enr = Enr::empty(&k).expect("enr");
                v.push(Identity { secret, id: enr.node_id() });
            }
        }
        v
    }))
}

#[derive(Clone, Copy, PartialEq, Eq, Hash, Debug)]
pub struct RecSpec {
    pub ident: usize,
    pub seq: u64,
    pub ip4: Option<([u8; 4], u16)>,
    pub ip6: Option<([u8; 16], u16)>,
    /// extra padding bytes in a custom field (to approach the 300-byte limit)
    pub pad: u16,
}

pub fn record(spec: RecSpec) -> Enr {
    try_record(spec).expect("enr build")
}

/// `None` if the record would exceed the 300-byte limit.
pub fn try_record(spec: RecSpec) -> Option<Enr> {
    static C: OnceLock<Mutex<HashMap<RecSpec, Enr>>> = OnceLock::new();
    let c = C.get_or_init(|| Mutex::new(HashMap::new()));
    if let Some(e) = c.lock().unwrap().get(&spec) {
        return Some(e.clone());
    }
    let key = pool()[spec.ident].key();
    // ENR signing draws from OsRng: give it a stream that depends on the spec only
    let stream = {
        let mut h = crate::prng::label_hash(&format!("{spec:?}"));
        Prng::new(crate::prng::splitmix(&mut h))
    };
    crate::interpose::with_rng(stream, || build_record(spec, &key, c))
}

fn build_record(spec: RecSpec, key: &CombinedKey, c: &Mutex<HashMap<RecSpec, Enr>>) -> Option<Enr> {
    let mut b = Enr::builder();
    b.seq(spec.seq);
    if let Some((ip, port)) = spec.ip4 {
        b.ip4(Ipv4Addr::from(ip));
        // port 0 = a record that carries an IPv4 address but no UDP port
        if port != 0 {
            b.udp4(port);
        }
    }
    if let Some((ip, port)) = spec.ip6 {
        b.ip6(Ipv6Addr::from(ip));
        b.udp6(port);
    }
    if spec.pad > 0 {
        let bytes: Vec<u8> = (0..spec.pad).map(|i| (i % 251) as u8).collect();
        b.add_value("pad", &bytes.as_slice());
    }
    let enr = b.build(key).ok()?;
    let mut g = c.lock().unwrap();
    if g.len() > 200_000 {
        g.clear();
    }
    g.insert(spec, enr.clone());
    Some(enr)
}
