//! Registry of checks: one `CheckSpec` per claimed property.

use crate::core::*;
use crate::worlds;

fn c07_run(ctx: &mut Ctx) {
    worlds::table::run(ctx, worlds::table::Which { c07: true, c08: false });
}
fn c08_run(ctx: &mut Ctx) {
    worlds::table::run(ctx, worlds::table::Which { c07: false, c08: true });
}

const REAL_TABLE: &[&str] = &["kbucket::KBucketsTable", "kbucket::bucket::KBucket", "kbucket::entry::Entry", "kbucket::key::Key", "ClosestIter / ClosestBucketsIter"];
const STUB_CLOCK: &[&str] = &["OS monotonic clock (clock_gettime interposed: harness-owned simulated time)"];

pub static C07: CheckSpec = CheckSpec {
    id: "C07",
    level: "exploration",
    scenarios: &[Scenario { name: "table-history", weight: 1, run: c07_run }],
    runs_quick: 400_000,
    runs_thorough: 7_000_000,
    cap_quick_s: 60,
    cap_thorough_s: 900,
    rule: "one run = one generated history (8..170 operations: insert_or_update / update_node_status / update_node / remove / entry API / iter / lookups / clock advance) on a real KBucketsTable whose key pool sits in 1-4 hot buckets (low, middle and high indices) with a per-run incoming limit 0..16 and pending timeout in {0,1ms,40ms,1s,60s,never}; every run is non-trivial (invariants are evaluated after every operation); distinct = distinct hash of the abstract operation/result log",
    components_real: REAL_TABLE,
    components_stub: STUB_CLOCK,
    enumerated: None,
    assumptions: &["node ids are built with NodeId::new from chosen bytes (no hashing), so all 256 buckets are reachable", "the Entry API's value_mut (documented to bypass filters) is not exercised"],
};

pub static C08: CheckSpec = CheckSpec {
    id: "C08",
    level: "exploration",
    scenarios: &[Scenario { name: "table-lookups", weight: 1, run: c08_run }],
    runs_quick: 300_000,
    runs_thorough: 7_000_000,
    cap_quick_s: 60,
    cap_thorough_s: 900,
    rule: "same histories as C07; at lookup steps and at the end of each run closest_keys / closest_values / closest_values_predicate (3 targets: local id, stored ids, ids at a chosen log2 distance 0..256 with the low bits set, random) are compared with the sorted post-iteration full scan, and nodes_by_distances (distinct distances incl. 0, >256, u64::MAX; cap 1..20) with the stored nodes at those distances; distinct = distinct hash of the operation/result log; the order in which the closest-node lookups and the distance lookups touch the table after each operation is chosen per check (both apply pending nodes whose timeout has run out); a fifth of the closest-iteration targets have a distance built word by word (64-bit) from runs of set and clear bits, single bits and their complements, and buckets around the word boundaries (63-65, 127-129, 191-193) are populated more often than chance; one distance list in ten is long (200-400 distinct out-of-range values, sometimes every in-range distance as well) with the occupied distances at the front, at the end or anywhere between",
    components_real: REAL_TABLE,
    components_stub: STUB_CLOCK,
    enumerated: None,
    assumptions: &["XOR distance and log2 distance of the oracle are computed from raw id bytes, independently of kbucket::Key", "nodes_by_distances is called with a cap >= 1 and distinct distances"],
};

pub static C16: CheckSpec = CheckSpec {
    id: "C16",
    level: "exploration",
    scenarios: &[Scenario { name: "ip-table-history", weight: 1, run: worlds::iptable::run }],
    runs_quick: 60_000,
    runs_thorough: 3_500_000,
    cap_quick_s: 60,
    cap_thorough_s: 900,
    rule: "one run = one generated history (20..320 operations: insert_or_update, record updates that may move a node to another /24, status updates, removals, Entry API, iteration, clock advances around the 60 s pending timeout) on the routing table of a Discv5 built with ip_limit (real IpTableFilter/IpBucketFilter), over 30..150 real signed records drawn from 1-3 /24 subnets plus address-less and IPv6-only fillers, with an optional fill burst so that full buckets with pending candidates occur; per-bucket and per-table /24 counts are checked after every operation; distinct = distinct hash of the operation/result log; an eighth of the IPv4 records carry an IPv4 address without a UDP port, another eighth IPv4 and IPv6 endpoints together; a quarter of the operations after a candidate became pending are aimed at that candidate (status reports, record updates, entry operations); the node listens on IPv4, IPv6 only or both",
    components_real: &["kbucket::KBucketsTable<NodeId, Enr>", "kbucket::filter::{IpTableFilter, IpBucketFilter}", "Discv5::new (filter wiring)", "enr records with real signatures"],
    components_stub: STUB_CLOCK,
    enumerated: None,
    assumptions: &["identities come from a fixed pool of 192 deterministic secp256k1 keys, so populated buckets are the high ones (255, 254, ...)"],
};

const REAL_QUERY: &[&str] = &["query_pool::peers::closest::FindNodeQuery", "query_pool::peers::predicate::PredicateQuery", "query_pool::QueryPool / Query"];

pub static C09: CheckSpec = CheckSpec {
    id: "C09",
    level: "exploration",
    scenarios: &[
        Scenario { name: "query-direct", weight: 8, run: worlds::query::run_direct },
        Scenario { name: "query-pool", weight: 4, run: worlds::query::run_pool },
        Scenario { name: "service-lookup", weight: 1, run: worlds::s_nodes::run_lookup },
        Scenario { name: "full-stack", weight: 1, run: f_c09 },
    ],
    runs_quick: 600_000,
    runs_thorough: 18_000_000,
    cap_quick_s: 60,
    cap_thorough_s: 900,
    rule: "one run = one generated event order (poll / success with 0..6 returned peers that are new, duplicate, closer, farther or the target itself / failure / silence past the peer timeout / late success / answers for never-asked or unknown peers) against a real FindNodeQuery or PredicateQuery (direct) or a real QueryPool with 1-3 concurrent queries and a query timeout (pool), parallelism 1..5, k 0..20, followed by a fault-free drain phase with a step bound (liveness); non-trivial = at least one fault-like event fired (failure, late success, silence, answer for a non-outstanding peer); distinct = distinct hash of the event log; service-lookup: a real service with a scripted handler whose FINDNODEs are answered honestly, maliciously or with failures; Scenario 'full-stack': 2-5 complete honest Discv5 nodes (API, service, handler, tables) on the virtual network with drop/duplicate/delay/bit-flip/late-replay/partition/restart faults and API calls (find_node incl. targets adjacent to a peer's id, send_ping, talk_req, find_node_designated_peer); every API future must return within a bound after the faults stop; pool runs also check the query timeout itself: a poll that examined every query and had nothing to do must not leave a query in the pool whose clock (started at the latest at the first poll that certainly examined it) has run for the query timeout; service-lookup: peers may stay silent (reported as failed after 3 s, as the handler would), and after the first lookup a second one runs while requests of the first are still being answered (answers to an ended lookup must not count for the next); requests count as in flight until answered, or until the lookup's peer timeout for silent peers; in the pool scenario one lookup in ten has parallelism 0: it can ask nobody and must still end, by the query timeout",
    components_real: REAL_QUERY,
    components_stub: &["OS monotonic clock (interposed)", "the service and its peers (the harness plays the answers)"],
    enumerated: None,
    assumptions: &["in flight = asked, not yet answered/failed and younger than the peer timeout", "the parallelism bound is `parallelism` until `parallelism` successes have been delivered (the query cannot have stalled before), max(parallelism, k) afterwards"],
};

pub static C10: CheckSpec = CheckSpec {
    id: "C10",
    level: "exploration",
    scenarios: &[
        Scenario { name: "query-direct", weight: 8, run: worlds::query::run_direct },
        Scenario { name: "query-pool", weight: 4, run: worlds::query::run_pool },
        Scenario { name: "service-lookup", weight: 1, run: worlds::s_nodes::run_lookup },
        Scenario { name: "full-stack", weight: 1, run: f_c10 },
    ],
    runs_quick: 600_000,
    runs_thorough: 18_000_000,
    cap_quick_s: 60,
    cap_thorough_s: 900,
    rule: "same runs as C09 (different run indices are not shared: C10 draws its own); the final result of every query (into_result after Finished, or at pool Timeout) is checked: at most k distinct ids, strictly increasing XOR distance to the target (raw bytes), each asked and answered with a success, predicate results reported with a matching record or flagged initially, and if fewer than k without timeout every certainly-learned candidate was asked; Scenario 'full-stack' (W-F, see C09): every find_node result of a complete node is checked at the API: distinct ids, not the local node, in increasing XOR distance to the target, at most 16, and each id belongs to a node that put a NODES response to the caller on the wire (plaintext read with the key log); service-lookup: tables of up to 36 nodes (more than the k seeds) and a completeness oracle over the records the service accepted from answers",
    components_real: REAL_QUERY,
    components_stub: &["OS monotonic clock (interposed)", "the service and its peers (the harness plays the answers)"],
    enumerated: None,
    assumptions: &["'certainly learned' = the first k initial candidates plus peers returned by the first report of an asked peer (an under-approximation of what the query incorporated, so the completeness clause cannot false-alarm)"],
};

pub static C18: CheckSpec = CheckSpec {
    id: "C18",
    level: "exploration",
    scenarios: &[
        Scenario { name: "filter-adversarial", weight: 2, run: worlds::recvfilter::run },
        Scenario { name: "filter-conforming", weight: 1, run: worlds::recvfilter::run },
    ],
    runs_quick: 400_000,
    runs_thorough: 19_000_000,
    cap_quick_s: 60,
    cap_thorough_s: 900,
    rule: "one run = one generated arrival schedule (20..420 steps: datagrams from 1-6 IPs x 1-8 node ids, bursts, lulls of 0..31 s, prune ticks, ban/permit list edits) executed twice against a fresh real Filter (with and without the prune ticks: metamorphic pair), quotas burst in {1,2,4,5,8,10} per {0.1,0.5,1,5} s for total / per-IP / per-node; 'conforming' runs generate only traffic that stays within every quota (initial burst, then paced at >= period/burst per key and in total) and demand that nothing is refused; non-trivial = a prune tick occurred or at least one datagram was refused; distinct = distinct hash of the arrival/decision log; sender addresses are IPv4, IPv4-mapped IPv6 and IPv6; the arriving datagrams are of message kind, of handshake kind or a mix (per-run knob): both carry a node id and take the same node stage; ban durations include 100 ms and 1 s (shorter than most quota periods) and list edits include lifting a ban: the window bound must hold across the end of a ban; a refusal of a sender whose expired ban entry is still on the list (the sweep is not part of the filter) is attributed to that entry unless the implementation has shown, by letting such a sender pass, that it does not honour expired entries",
    components_real: &["socket::filter::Filter (initial_pass, final_pass, prune_limiter)", "socket::filter::rate_limiter::{RateLimiter, Limiter} (GCRA)", "socket::filter::cache::ReceivedPacketCache", "PERMIT_BAN_LIST global"],
    components_stub: &["OS monotonic clock (interposed)", "UDP receive loop and packet decoding (the filter stages are called directly in the order RecvHandler::handle_inbound calls them; the exemption bypass of handle_inbound is exercised under C13)"],
    enumerated: None,
    assumptions: &["quota periods are chosen so that period_ns is divisible by the burst: the limiter's integer replenish interval is then exact and 'burst + rate x window' is the exact bound", "ban expiry enforcement (unban) belongs to the Handler task and is not part of this world; bans are only required to last at least ban_duration"],
};

const REAL_HANDLER: &[&str] = &["handler::Handler (send_request, handle_challenge, handle_auth_message, handle_message, handle_response, timeouts, pending requests, replay on re-key)", "handler::session::Session + handler::crypto (real secp256k1 ECDH, HKDF, AES-GCM)", "handler::active_requests::ActiveRequests (delay_map timers)", "lru_time_cache::LruTimeCache (session cache)", "socket::recv::RecvHandler::handle_inbound (filter, exemption lookup, Packet::decode)", "socket::send: Packet::encode", "rpc codec"];
const STUB_HANDLER: &[&str] = &["UDP sockets and the two socket I/O select loops (replaced by equivalent loops over the harness's virtual network)", "OS clock (interposed; follows tokio's paused clock)", "OS entropy (interposed getrandom: seeded PRNG)", "the service layer above the handler (the harness plays each handler's application: answers WhoAreYou queries and requests)"];

const REAL_HANDLER_AND_SERVICE: &[&str] = &[
    "scenario identity-adversary (W-H): handler::Handler, handler::session::Session + handler::crypto (real secp256k1 ECDH/ECDSA, HKDF, AES-GCM), ActiveRequests, LruTimeCache, socket::recv::RecvHandler::handle_inbound, Packet::encode/decode, rpc codec",
    "scenario table-policy (W-S): Discv5 public API, service::Service (session reports, who-are-you queries, NODES handling, routing-table admission and update), kbucket::KBucketsTable with the configured filters",
];
const STUB_HANDLER_AND_SERVICE: &[&str] = &[
    "scenario identity-adversary: UDP sockets and the two socket I/O loops (virtual network), OS clock and entropy (interposed), the service layer (the harness plays each handler's application)",
    "scenario table-policy: the Handler (scripted by the harness through hook H5), sockets, OS clock and entropy (interposed)",
];

fn f_c09(ctx: &mut Ctx) {
    worlds::fworld::run(ctx, worlds::fworld::Which { c09: true, ..Default::default() });
}
fn f_c10(ctx: &mut Ctx) {
    worlds::fworld::run(ctx, worlds::fworld::Which { c10: true, ..Default::default() });
}
fn f_c11(ctx: &mut Ctx) {
    worlds::fworld::run(ctx, worlds::fworld::Which { c11: true, ..Default::default() });
}
fn f_c13(ctx: &mut Ctx) {
    worlds::fworld::run(ctx, worlds::fworld::Which { c13: true, ..Default::default() });
}
fn f_c14(ctx: &mut Ctx) {
    worlds::fworld::run(ctx, worlds::fworld::Which { c14: true, ..Default::default() });
}
fn f_c19(ctx: &mut Ctx) {
    worlds::fworld::run(ctx, worlds::fworld::Which { c19: true, ..Default::default() });
}
fn f_c20(ctx: &mut Ctx) {
    worlds::fworld::run(ctx, worlds::fworld::Which { c20: true, ..Default::default() });
}
fn c04_run(ctx: &mut Ctx) {
    worlds::h_traffic::run(ctx, worlds::h_traffic::Opts { c04: true, c13: false, c19: false, malicious: true });
}
fn c19_run(ctx: &mut Ctx) {
    worlds::h_traffic::run(ctx, worlds::h_traffic::Opts { c04: false, c13: false, c19: true, malicious: true });
}
fn c13_run(ctx: &mut Ctx) {
    worlds::h_traffic::run(ctx, worlds::h_traffic::Opts { c04: false, c13: true, c19: false, malicious: true });
}

pub static C04: CheckSpec = CheckSpec {
    id: "C04",
    level: "exploration",
    scenarios: &[Scenario { name: "handler-traffic", weight: 1, run: c04_run }],
    runs_quick: 40_000,
    runs_thorough: 2_000_000,
    cap_quick_s: 75,
    cap_thorough_s: 1200,
    rule: "one run = 2-4 real handlers on the virtual network, 1-12 concurrent requests (PING / FINDNODE with 1-3 response packets / TALK, contacts with and without record) submitted at chosen times, under a per-run fault profile (drop, duplicate, delay/reorder, partition, slow WHOAREYOU answers and responses, silent application, peer restart, injected undecryptable packet = session loss, clock jump); at a chosen instant all faults stop and the run continues for the liveness bound; non-trivial = at least one fault fired; distinct = distinct hash of the abstract event log (datagram kinds, faults, handler outputs, virtual times); malicious-peer actions (second WHOAREYOU, forged WHOAREYOU, random packets from unknown parties) are injected as well; a fifth of the runs use an IPv6-only network; bit flips and late replays (50-2500 ms) are part of the network profile",
    components_real: REAL_HANDLER,
    components_stub: STUB_HANDLER,
    enumerated: None,
    assumptions: &["liveness bound B = 4*(retries+1)*request_timeout + 2 s + 3 s (max application delay), calibrated on the fault-free configuration (1 run in 6)", "a request submitted at a handler that is then restarted is lost with it (no durable state) and is exempt from the liveness clause"],
};

pub static C15: CheckSpec = CheckSpec {
    id: "C15",
    level: "exploration",
    scenarios: &[
        Scenario { name: "session-ttl", weight: 2, run: worlds::h_session::run_ttl },
        Scenario { name: "session-capacity", weight: 1, run: worlds::h_session::run_capacity },
        Scenario { name: "capacity-with-expiry", weight: 1, run: worlds::h_session::run_capacity_expiry },
    ],
    runs_quick: 30_000,
    runs_thorough: 900_000,
    cap_quick_s: 75,
    cap_thorough_s: 1200,
    rule: "session-ttl: a victim with session_timeout in {2,5,30,120} s and 1-3 real peers; 4-17 sequential exchanges in either direction separated by idle gaps of 50 ms, timeout/2, timeout-0.7 s, timeout+1 ms, timeout+0.7 s, 2*timeout; every datagram the victim encrypts and every message it accepts is attributed to one of its sessions (key log) and that session's idle time must not exceed the timeout. session-capacity: capacity 1-5, 2-7 real peers, sequential exchanges in tape-chosen order and direction, then the victim pings every peer most-recently-used first: ranks below the capacity must be answered on the existing session, ranks at or above it must start with a random packet; non-trivial = an idle gap longer than the timeout occurred / more peers than capacity; distinct = distinct event-log hash; capacity-with-expiry: capacity 2-4, session_timeout 20/60 s, the cache is filled, one peer's session is left to expire (the peer may crash; the victim may look the expired session up once more) while the others stay in use, then a new peer arrives: the probe demands that every session used within the timeout is still held; a fifth of the runs use an IPv6-only network; the victim's application sometimes answers a request only around or after the expiry of the session it came in on; a quarter of the ttl runs: the victim retransmits (retries 2-3, request timeout 1 s), its sessions live 0.3 or 0.7 s and peers sometimes answer only after the first retransmission (a byte-identical retransmission is not a use of the session); replayed old datagrams include handshake datagrams (a handshake that answers no outstanding challenge is no use of any session: neither the idle time nor the recency rank of that peer's session may change), in the capacity scenario between exchanges; one step in five is preceded by an undecryptable packet in the peer's name whose who-are-you query the victim's application answers only after half a session timeout or more (answering a query is no use of a session)",
    components_real: REAL_HANDLER,
    components_stub: STUB_HANDLER,
    enumerated: None,
    assumptions: &["'use' of a session = the victim encrypts a datagram under its keys or accepts (delivers) a message decrypted under them; creation counts as a use", "capacity runs keep exchanges sequential so that recency is unambiguous whatever else the implementation counts as a touch"],
};

pub static C19: CheckSpec = CheckSpec {
    id: "C19",
    level: "exploration",
    scenarios: &[Scenario { name: "handler-traffic", weight: 4, run: c19_run }, Scenario { name: "full-stack", weight: 1, run: f_c19 }],
    runs_quick: 40_000,
    runs_thorough: 2_000_000,
    cap_quick_s: 75,
    cap_thorough_s: 1200,
    rule: "same world and fault profiles as C04 plus forged WHOAREYOUs that force re-keying; every emitted Message/Handshake datagram is attributed to the session key (H6 key log) that decrypts it and (emitter, key, 12-byte nonce) must identify one byte string; all id-nonces of a node's WHOAREYOUs must differ; non-trivial = at least one fault fired; distinct = distinct event-log hash; Scenario 'full-stack': 2-5 complete honest Discv5 nodes (API, service, handler, tables) on the virtual network with drop/duplicate/delay/bit-flip/late-replay/partition/restart faults and API calls (find_node incl. targets adjacent to a peer's id, send_ping, talk_req, find_node_designated_peer); the same nonce-uniqueness oracle over all nodes' traffic",
    components_real: REAL_HANDLER,
    components_stub: STUB_HANDLER,
    enumerated: None,
    assumptions: &["the session-key log (hook H6) reports every session object the handler creates"],
};

const REAL_SERVICE: &[&str] = &["Discv5 public API", "service::Service (request/response handling, NODES validation, routing-table admission, PING/FINDNODE/TALK serving, IP votes, connectivity state)", "kbucket::KBucketsTable", "query_pool::QueryPool + query state machines", "service::ip_vote::IpVote", "PERMIT_BAN_LIST"];
const STUB_SERVICE: &[&str] = &["the Handler (scripted by the harness through hook H5: it receives HandlerIn and emits HandlerOut, giving every request exactly one outcome)", "sockets, sessions, encryption (below the handler seam)", "OS clock and entropy (interposed)"];

pub static C11: CheckSpec = CheckSpec {
    id: "C11",
    level: "exploration",
    scenarios: &[Scenario { name: "nodes-validation", weight: 5, run: worlds::s_nodes::run_c11 }, Scenario { name: "full-stack", weight: 1, run: f_c11 }],
    runs_quick: 30_000,
    runs_thorough: 1_500_000,
    cap_quick_s: 75,
    cap_thorough_s: 1200,
    rule: "one run = a real service with 1-10 table peers out of a universe of 10-40 real signed records, one lookup whose target is random, a peer's id, a peer's id with one of the three lowest bits flipped (request lists containing 0) or the local id; each FINDNODE the lookup emits is answered by an honest responder (all records of its neighbourhood at the requested distances, own record iff 0 requested, 1-4 packets, consistent total, sometimes a late extra packet) or a malicious one (off-distance records, the requester's own record, duplicates, totals 0..2^64-1 with up to 20 packets, more packets than announced, a single foreign record) or by RequestFailed; accepted records are observed as Discovered events packet by packet, the ban list is read after every response; non-trivial = the lookup asked at least one peer; distinct = distinct event-log hash; Scenario 'full-stack': 2-5 complete honest Discv5 nodes (API, service, handler, tables) on the virtual network with drop/duplicate/delay/bit-flip/late-replay/partition/restart faults and API calls (find_node incl. targets adjacent to a peer's id, send_ping, talk_req, find_node_designated_peer); the ban list must stay empty (all peers are honest); ban_duration is the default, 10 min or None (banned for good); the node's own max_nodes_response is 4, 16, 20, 32 or 64 (the honest responder model, the same implementation with the same setting, returns at most that many table records); the unrequested records a malicious responder slips in are dialable, IPv6-only, without UDP port or without any address; in a quarter of the C11 runs some responders are on the application's permit lists (node id or IP): a responder that returns unrequested records is put on the ban list all the same; in the C09/C10 runs the routing table changes while the lookup runs (a node of the universe connects, a table entry is removed; half of these changes are aimed at a node the lookup has learnt of but not asked yet)",
    components_real: REAL_SERVICE,
    components_stub: STUB_SERVICE,
    enumerated: None,
    assumptions: &["the honest responder is this implementation with the local node's own max_nodes_response: an answer with more records than that is not necessarily accepted completely (the service completes a request once it holds that many records)", "'accepted' = reported as Event::Discovered (the records handed to the query and the routing-table update); the local node's own record is never reported and is excluded", "the scripted handler delivers at most `total` (of the first packet) responses per request, like the real handler", "completeness is only demanded of honest, complete answers of at most 16 records"],
};

pub static C12: CheckSpec = CheckSpec {
    id: "C12",
    level: "exploration",
    scenarios: &[
        Scenario { name: "table-policy", weight: 3, run: worlds::s_table::run },
        Scenario { name: "identity-adversary", weight: 1, run: worlds::h_adv::run_c01 },
    ],
    runs_quick: 40_000,
    runs_thorough: 2_000_000,
    cap_quick_s: 75,
    cap_thorough_s: 1200,
    rule: "table-policy (real service, scripted handler): 10-70 steps over a universe of 6-26 real signed records: Established (incoming/outgoing, record shapes v4 / none / v6-only / both / v4-mapped v6 / v4+tcp, sequence number equal or higher than known), add_enr (lower/equal/higher seq), remove_node, disconnect_node, lookups whose FINDNODEs are answered with records of any shape and seq lower/equal/higher (discovered records), PONGs advertising higher seqs, request failures, idle time; IP mode v4 / v6 / dual stack; table filter none / no-tcp / odd-seq; the routing table is read after every step. identity-adversary (real handlers, W-H): the C01 scenario, which also lets the adversary handshake under its own id with a record advertising its real source, no address, or somebody else's address and demands that an incoming Established carries a record whose UDP address equals the observed source; non-trivial = the table was non-empty at the end / an attack datagram was injected; distinct = distinct event-log hash; record shape 6 = IPv4 address without UDP port (not contactable over IPv4); identity scenario: see C01 (a peer that presents another identity's record in answer to the handler's own record request must not make that identity Established); the adversary's own identity is known to the victim's application with a lower, equal (other content) or higher sequence number than the record its handshake attaches: Established must carry the held record unless the attached one is strictly newer; unauthenticated who-are-you queries for table nodes (see C01) are part of the operation set",
    components_real: REAL_HANDLER_AND_SERVICE,
    components_stub: STUB_HANDLER_AND_SERVICE,
    enumerated: None,
    assumptions: &["the scripted handler reports, like the real one, only records whose address is absent or equals the source, and never a record older than (or a different one with the same seq as) the one the service knows", "'every entry was the subject of an Established or add_enr' is checked over the whole run (not since its last absence)"],
};

pub static C14: CheckSpec = CheckSpec {
    id: "C14",
    level: "exploration",
    scenarios: &[Scenario { name: "serve-findnode-ping", weight: 6, run: worlds::s_serve::run_c14 }, Scenario { name: "full-stack", weight: 1, run: f_c14 }],
    runs_quick: 12_000,
    runs_thorough: 600_000,
    cap_quick_s: 75,
    cap_thorough_s: 1200,
    rule: "one run = a real service whose table holds 2-61 real signed records (padded to the 300-byte limit in two of three runs), max_nodes_response in {1,4,16,32,48}; 3-14 requests: FINDNODE with 0-6 distances (0, 256..249, random; duplicates, unsorted), request ids of 0-8 bytes, requesters that are table entries or strangers, PINGs from ports incl. 0; the HandlerIn::Response values are compared with the table read back through the public API and every packet is encrypted (AES-GCM) and encoded with the real codec to measure its wire size; every run is non-trivial; distinct = distinct event-log hash; Scenario 'full-stack' (W-F, see C09): every NODES and PONG a complete node puts on the wire is decrypted with the key log: records only at the distances of the FINDNODE it answers (matched by request id), never the requester's record, only entries of the sender's table (or its own record), total >= 1; PONG reports exactly the requester's address and the sender's current sequence number; record sizes: plain, maximal (300 bytes) or every size in between at byte granularity; PING sources are IPv4, IPv6 and IPv4-mapped IPv6 addresses with ports from the whole range, and the local record is sometimes updated (enr_insert) before a PING so that the PONG must carry the new sequence number; a quarter of the runs use tables of 100-176 nodes; one request in eight names (nearly) every distance 0..=256 in ascending, descending or rotated order, with duplicates and out-of-range values mixed in; a fifth of the nodes advertise no socket in their own record (they serve it for distance 0 all the same); a quarter of the nodes listen dual-stack, where IPv4-mapped sources are what a socket reports for IPv4 senders: the answer goes to the observed source as it is",
    components_real: REAL_SERVICE,
    components_stub: STUB_SERVICE,
    enumerated: None,
    assumptions: &["log2 distances of the oracle are computed from raw id bytes", "when more entries are eligible than max_nodes_response any subset of that size is accepted (one fewer when the requester itself was among the selected ones)"],
};

pub static C17: CheckSpec = CheckSpec {
    id: "C17",
    level: "exploration",
    scenarios: &[Scenario { name: "ip-votes", weight: 1, run: worlds::s_serve::run_c17 }],
    runs_quick: 20_000,
    runs_thorough: 400_000,
    cap_quick_s: 75,
    cap_thorough_s: 1200,
    rule: "one run = a real service in IPv4 mode with enr_peer_update_min 2..6, vote_duration 8/30/120 s, ping interval 1 s, 2-12 voters established as outgoing or incoming peers; 10-70 rounds in which a held PING is answered with a PONG carrying that voter's current opinion among three candidate addresses (fewer liars than the minimum vote a third address), voters change opinion, time passes (up to a whole vote duration); the local record is read after every PONG: a change to an address must be backed, at that moment, by at least the minimum number of unexpired latest votes of eligible (outgoing) peers and every rival must stay below round(0.7 x that count); seq increases, the record verifies, one SocketUpdated event per change; non-trivial = at least one eligible vote was cast; distinct = distinct event-log hash; every SocketUpdated event must announce an address the record now advertises and every change must be announced in the same step; PINGs to voters sometimes time out (the voter is marked disconnected; its earlier unexpired vote stands, a PONG of its counts again only after one has been processed); the application sometimes overrides the advertised socket by hand; dual-stack runs (a third) enable the connectivity check in half of the runs: when it revokes an elected socket of one family the tally of the other family must stand, which the margin clause checks there with bounds (the winner's certain plus possible votes against a rival's certain votes); voters publish new records now and then (their PONGs announce the higher sequence number, the node asks for the record) and answer such record requests with a NODES response, which is no vote and leaves the expiry of earlier votes alone",
    components_real: REAL_SERVICE,
    components_stub: STUB_SERVICE,
    enumerated: None,
    assumptions: &["single-stack runs: only connected outgoing table peers are eligible voters (a voter whose PING timed out is disconnected until one of its PONGs has been processed); dual-stack runs: PONGs of other peers count while votes of that family are missing, so the tally is known within bounds (certain votes = connected outgoing peers, possible votes = everybody else) and the minimum and margin clauses are checked with those bounds; in both modes a vote within 100 ms of its expiry may or may not have counted (the service decides when the PONG is processed, the check reads the clock a moment later)", "the connectivity check (auto_nat_listen_duration 20 s; a quarter of the single-stack and half of the dual-stack runs) removes an elected socket nobody connects to: that removal is not a PONG-caused change (checked for seq/signature only), and since votes of the revoked family are not counted for hours afterwards the reference stops following that family for the rest of the run"],
};

pub static C20: CheckSpec = CheckSpec {
    id: "C20",
    level: "exploration",
    scenarios: &[Scenario { name: "talk", weight: 8, run: worlds::s_serve::run_c20 }, Scenario { name: "full-stack", weight: 1, run: f_c20 }],
    runs_quick: 40_000,
    runs_thorough: 2_000_000,
    cap_quick_s: 75,
    cap_thorough_s: 1200,
    rule: "one run = 1-150 TALKREQs from 5 peers delivered to a real service; the application (harness) takes the TalkRequest objects from the event stream and, in tape order, responds, drops or holds them; stream modes: drained, never drained (fills up), receiver dropped; in one run of three the service is shut down at a chosen point and the (scripted) handler goes away with it, after which held requests are responded to or dropped; while running every TALKREQ must get exactly one TALKRESP with its id to its address carrying the application's payload or an empty one; after shutdown respond() must return an error and nothing may panic; every run is non-trivial; distinct = distinct event-log hash; the application may sit on requests for 50 ms .. 10 min before answering or dropping them; Scenario 'full-stack' (W-F, see C09): the applications of complete nodes answer or drop every TalkRequest event at once; per (node, requester, request id) the TALKRESP packets on the wire (decrypted with the key log) never outnumber the events, carry a payload the application produced, and equal the events in number at the end unless the node restarted or a handler dropped a response for lack of a session; the application's payload may be explicitly empty; the application sometimes panics while it holds a request (the request object is dropped by the unwinding); payload size classes: empty, small, around the largest that fits a datagram (1100..1300 bytes), 5000 bytes; the five requesters are unknown to the node, known through a session (dual-stack runs: with an IPv6 endpoint in the record as well) or known from a table entry whose record advertises another port or address than the one they send from: the response belongs to the source address of the request in every case; a quarter of the runs listen dual-stack; the requester of a held request is sometimes banned (node id or IP) before the application responds or drops: the request is still owed exactly one response; in dual-stack runs half of the requesters send from the IPv4-mapped form of their address (the response is owed to exactly that address)",
    components_real: REAL_SERVICE,
    components_stub: STUB_SERVICE,
    enumerated: None,
    assumptions: &["after shutdown the scripted handler closes its receiving end, as the real handler task does when it exits"],
};

pub static C13: CheckSpec = CheckSpec {
    id: "C13",
    level: "exploration",
    scenarios: &[Scenario { name: "handler-traffic", weight: 6, run: c13_run }, Scenario { name: "full-stack", weight: 1, run: f_c13 }, Scenario { name: "banned-peer-bypass", weight: 1, run: worlds::h_traffic::run_bypass }],
    runs_quick: 40_000,
    runs_thorough: 1_900_000,
    cap_quick_s: 75,
    cap_thorough_s: 1200,
    rule: "same world and fault profiles as C04 (packet filter on in half of the handlers) plus malicious peers (second WHOAREYOU, forged WHOAREYOU, random packets from unknown parties whose challenge is never answered); the shared exemption map is compared with the harness's ledger after every handler output (upper bound) and must be empty at quiescence; non-trivial = at least one fault fired; distinct = distinct event-log hash; banned-peer-bypass: victim with the packet filter on, the peer's IP banned: the victim's own requests to it must be answered (exemption) and the peer's unsolicited requests must leave no trace; Scenario 'full-stack': 2-5 complete honest Discv5 nodes (API, service, handler, tables) on the virtual network with drop/duplicate/delay/bit-flip/late-replay/partition/restart faults and API calls (find_node incl. targets adjacent to a peer's id, send_ping, talk_req, find_node_designated_peer); all exemption maps must be empty once every API call returned; lower bound: the exemptions for an address are at least the requests to it that were transmitted (request-transmission log) and have no outcome yet; challenges are tracked per (address, claimed node id); banned-peer-bypass: while the victim waits for the banned peer's answer another endpoint on the same IP (other port) sends an unsolicited packet, which must leave no trace; malicious peers also send a WHOAREYOU that echoes the nonce of a request in flight from another endpoint than the dialled one (the peer's IP on another port, a third party)",
    components_real: REAL_HANDLER,
    components_stub: STUB_HANDLER,
    enumerated: None,
    assumptions: &["quiescence of an address = the horizon was reached, no harness event is pending and the node put nothing on the wire towards that address for a full request timeout (an outstanding request is sent or re-sent, an unexpired challenge was issued, within that period); an address still being talked to is skipped for the emptiness clause (counter horizon_address_not_quiescent) and stays under the continuous upper bound", "a response datagram that was delivered counts as an answer unless the receiver asks its application who-are-you for that very nonce (it could not decrypt it); requests that leave as random packets are identified through the request-transmission log (hook H8)"],
};

pub static C01: CheckSpec = CheckSpec {
    id: "C01",
    level: "exploration",
    scenarios: &[Scenario { name: "identity-adversary", weight: 3, run: worlds::h_adv::run_c01 }, Scenario { name: "table-policy", weight: 1, run: worlds::s_table::run }],
    runs_quick: 20_000,
    runs_thorough: 600_000,
    cap_quick_s: 75,
    cap_thorough_s: 1200,
    rule: "one run = a victim handler, 1-2 genuine peers (one possibly not running) and an adversary without any honest secret key; the victim's application knows the genuine record, nothing, or a stale record; 1-3 attacks = random packet claiming a genuine id from the attacker's or the genuine (spoofed) address, then a handshake answering the victim's WHOAREYOU with record in {own (seq below/equal/above), genuine (replayed), none, own with the genuine address}, signer in {attacker key, garbage, replayed genuine signature}, valid or invalid ephemeral key; interleaved with genuine requests in both directions; every identity effect (Established, Request, Response, UnverifiableEnr, recipient-side session keys) must be justified by a delivered handshake whose id-signature verifies under the claimed id's public key over one of the node's own WHOAREYOUs to that address, or by the node's own dial; non-trivial = an attack datagram was injected; distinct = distinct event-log hash; in a third of the runs one genuine peer lies about who it is after an honest handshake: asked for its record (the FINDNODE [0] a handler sends by itself to a contact dialled without a record) it presents a validly signed record of another identity (another node's genuine record, one without address, a second identity at its own address); each challenge justifies one session only (a session derived again from an already answered challenge is a replay); genuine handshakes are sometimes damaged in their message part and re-presented repeatedly; a fifth of the identity-adversary runs use an IPv6-only network; Scenario 'table-policy' (the C12 service world): undecryptable packets claiming a table node from its own or another address make the handler raise a who-are-you query: the claimed node's table entry (record, connection state) must not change; table-policy scenario: after such a query the service must not send a request to the claimed node at a socket that only the unauthenticated packet named; half of the forged handshakes are followed by a second, differently made one against the same WHOAREYOU (record, signer and sequence relation drawn again); in IPv6 runs the adversary's packets come from an IPv4-mapped source a third of the time; up to two recorded genuine message datagrams of an honest peer are presented to the victim from another socket (the peer's IP on another port, the adversary's address) by a party holding no key",
    components_real: REAL_HANDLER_AND_SERVICE,
    components_stub: STUB_HANDLER_AND_SERVICE,
    enumerated: None,
    assumptions: &["the oracle trusts the crate's ECDSA id-signature verification (reference vectors in the test suite)", "effects of sessions the node itself dialled are justified by its own request to that contact (the remote proves itself by decrypting under the static-key ECDH)"],
};

pub static C02: CheckSpec = CheckSpec {
    id: "C02",
    level: "fault_enumeration",
    scenarios: &[
        Scenario { name: "tamper-enumerated", weight: 1, run: worlds::h_tamper::run_enum },
        Scenario { name: "tamper-explored", weight: 1, run: worlds::h_tamper::run_explore },
    ],
    runs_quick: 60_000,
    runs_thorough: 2 * worlds::h_tamper::ENUM_SPACE + 200_000,
    cap_quick_s: 75,
    cap_thorough_s: 1500,
    rule: "enumerated half: 6 base exchanges (fresh recipient session, initiator with multi-packet NODES, record-less contact awaiting the record, re-key after session loss, simultaneous dial with a third node, NODES in 2 packets then reverse PING) x datagram index 0..9 x mutation index j (every single-bit flip, every truncation length, a 1-byte insertion at every offset, 1..8 junk bytes appended to the auth-data with the masked size field patched to cover them, presentation from the sender's IP on another UDP port; j beyond that is an empty case that ends at once): 198540 cases, all executed by the thorough tier, a fixed-stride sample by the quick tier; exactly one genuine datagram is replaced by its mutation per run. explored half: tape-chosen base plus extra requests, 5-40 % of the datagrams mutated by bit flip / truncation / insertion / auth-data growth with patched size field / header-body splice with an earlier datagram / misdelivery / re-masking for another node / spoofed source, with jitter and duplicates, sometimes delivering the genuine datagram as well; non-trivial = at least one mutated datagram was delivered; distinct = distinct event-log hash; exploration also lets a party with keys of its own answer a node's WHOAREYOU in the challenged peer's name from the peer's address (own/peer's/no record, lower/equal/higher seq): nothing it sends may be delivered as the peer's; explored runs: a fifth on an IPv6-only network, peers whose record advertises another port than they send from, and datagrams presented from that advertised socket; a delivery is justified if any datagram that carried the message from the attributed address belongs to a session established with that address; exploration injects messages in a peer's name from its address sealed with trivial keys (all-zero, all-ones); explored runs: responders sometimes announce a NODES total that is not the number of packets they send (3, 16, 40, 2^64-1); explored responders sometimes seal, under their genuine session keys, a hand-made NODES plaintext in which one of three records has a damaged signature (a peer need not use this crate's encoder): nothing that differs from what the peer encrypted may be delivered; explored mutations include presentation of a genuine datagram from the IPv4-mapped IPv6 alias of its source (same IP, same port, other address family)",
    components_real: REAL_HANDLER,
    components_stub: STUB_HANDLER,
    enumerated: Some(("tamper-enumerated", worlds::h_tamper::ENUM_SPACE)),
    assumptions: &["a delivered message is matched to its carrier by decrypting the receiver's genuine inbound datagrams with the sender's logged session keys (hook H6) and comparing the plaintext with the re-encoded delivered message", "duplicated or replayed genuine datagrams may be delivered again (the handler keeps no replay window and the property allows it)"],
};

pub static C03: CheckSpec = CheckSpec {
    id: "C03",
    level: "fault_enumeration",
    scenarios: &[
        Scenario { name: "replay-enumerated", weight: 1, run: worlds::h_replay::run_enum },
        Scenario { name: "replay-explored", weight: 1, run: worlds::h_replay::run_explore },
    ],
    runs_quick: 2 * worlds::h_replay::ENUM_SPACE + 12_000,
    runs_thorough: 2 * worlds::h_replay::ENUM_SPACE + 600_000,
    cap_quick_s: 75,
    cap_thorough_s: 1200,
    rule: "enumerated half: for each of 9 base exchanges (X dials V with/without V knowing X's record, V dials X with/without record, re-key after session loss, simultaneous dial plus a third node, X dials V with a record that advertises another address than it sends from, V re-keys as initiator after X restarted) every recorded handshake/WHOAREYOU datagram (index 0..7) x every later point (after the 1st..12th emitted datagram, after all challenges expired, while a later exchange runs) x {original source, other address, towards another node, forgery made from it, from the socket the handshake's own record advertises} is re-injected, one per run: 5040 cases, all executed in both tiers (runs whose datagram index does not exist inject nothing and are trivial); explored half: tape-chosen base, 1-4 replays, jitter and duplicates, extra requests; non-trivial = a replay was injected; distinct = distinct event-log hash; exploration also holds genuine handshakes back until around or past the expiry of the challenge they answer (timeout-300 .. timeout+1200 ms) while further undecryptable packets in the sender's name reach the challenger; exploration also presents WHOAREYOU and handshake datagrams from the sender's IP on another UDP port (instead of, or before, the genuine copy) and delivers genuine handshakes damaged in their message part repeatedly; explored runs: a fifth on an IPv6-only network; (c) the key a node encrypts messages with moves back to that of an earlier handshake only if a message under those keys reached it since it re-keyed; 8th base: the victim re-keys as initiator after its peer restarted; a ninth base exchange has V's FINDNODE answered with three NODES packets spread over 400 ms, and a fourth injection variant forges (rather than replays) a WHOAREYOU from a recorded datagram: one echoing the nonce of a recorded handshake, sent to the handshake's sender, or a second WHOAREYOU with another id-nonce for the nonce a recorded WHOAREYOU echoed",
    components_real: REAL_HANDLER,
    components_stub: STUB_HANDLER,
    enumerated: Some(("replay-enumerated", worlds::h_replay::ENUM_SPACE)),
    assumptions: &["a challenge's expiry is request_timeout after the WHOAREYOU or after the last delivered handshake that may have re-armed it (invalid-signature re-insert)", "the oracle trusts the crate's id-signature verification to attribute an accepted handshake to the challenge it answers"],
};

pub static ALL: &[&CheckSpec] = &[&C01, &C02, &C03, &C04, &C07, &C08, &C09, &C10, &C11, &C12, &C13, &C14, &C15, &C16, &C17, &C18, &C19, &C20];

pub fn lookup(id: &str) -> Option<&'static CheckSpec> {
    ALL.iter().copied().find(|c| c.id.eq_ignore_ascii_case(id))
}
