#!/usr/bin/env python3
"""Applies every kept seeded change (seeded/*/patch.diff) to /repo in turn, runs the quick check of
its property, expects exit 1 (VIOLATION), restores /repo. Writes /verif/seeded_report.json."""
import glob, json, os, subprocess, sys
REPO = os.environ.get("VERIF_REPO", "/repo")
HOME_V = os.environ.get("VERIF_HOME", "/verif")
rep = []
allok = True
for d in sorted(glob.glob("/verif/seeded/*/")):
    meta = json.load(open(d + "meta.json"))
    prop = meta["property"]
    if subprocess.run(["git", "-C", REPO, "diff", "--quiet"]).returncode != 0:
        print(REPO + " dirty"); sys.exit(2)
    a = subprocess.run(["git", "-C", REPO, "apply", d + "patch.diff"], capture_output=True, text=True)
    if a.returncode != 0:
        rep.append({"seeded": os.path.basename(d[:-1]), "result": "patch does not apply", "detail": a.stderr[-200:]}); allok = False
        continue
    out = subprocess.run(["./check", prop, "--tier", "quick", "--no-evidence"], cwd=HOME_V, capture_output=True, text=True)
    subprocess.run(["git", "-C", REPO, "checkout", "--", "."])
    clauses = []
    for line in out.stdout.splitlines():
        if line.startswith("VIOLATION"):
            path = line.split("replay=")[1].strip()
            try:
                clauses.append(json.load(open(path))["clause"])
            except Exception:
                pass
    ok = out.returncode == 1
    allok &= ok
    rep.append({"seeded": os.path.basename(d[:-1]), "property": prop, "check_exit": out.returncode, "clauses": clauses, "detected": ok})
    print(os.path.basename(d[:-1]), "exit", out.returncode, clauses, flush=True)
subprocess.run(["cargo", "build", "--release", "--offline", "-q"], cwd=HOME_V + "/sim", capture_output=True)
json.dump(rep, open("/verif/seeded_report.json", "w"), indent=1)
sys.exit(0 if allok else 1)
