#!/usr/bin/env python3
"""keep_seeded.py <ID> <slug> <worktree> <needs> <detected json: {"C01":"clause",...}> [first_missed note]"""
import json, os, shutil, subprocess, sys
cid, slug, wt, needs, det = sys.argv[1:6]
note = sys.argv[6] if len(sys.argv) > 6 else ""
d = f"/verif/seeded/{cid}-{slug}"
os.makedirs(d, exist_ok=True)
for f in ["patch.diff", "demo.diff", "NOTES.md"]:
    shutil.copy(os.path.join(wt, f), os.path.join(d, f))
base = subprocess.run(["git", "-C", "/repo", "log", "-1", "--format=%h"], capture_output=True, text=True).stdout.strip()
meta = {
    "property": cid,
    "source": "independent sub-agent given only the property text and a scratch worktree of /repo",
    "base_commit": base,
    "needs_to_manifest": needs,
    "confirmed": "tools/confirm_seeded.sh in the scratch worktree: with patch.diff + demo.diff the 121 pre-existing tests pass and the demo fails; with demo.diff only everything passes",
    "checks_run": "tools/run_seeded.sh patch.diff <ids> (git apply to /repo, ./check <id> --tier quick, git checkout -- .)",
    "detected_by": json.loads(det),
    "history": note,
}
json.dump(meta, open(os.path.join(d, "meta.json"), "w"), indent=1)
print("kept", d)
