#!/usr/bin/env python3
"""Determinism proof: every check's runs must give the same event-log hash, step count, simulated
time and verdict (a) twice in one process order, (b) when executed in differently chunked, separate
processes (so that no state leaks between runs or depends on process history), (c) in reverse chunk
order. Any difference is a harness bug. Usage: tools/determinism.py [runs_per_check] [ID ...]"""
import json, subprocess, sys, concurrent.futures as cf, time

DSIM = "/verif/sim/target/release/dsim"
args = sys.argv[1:]
N = int(args[0]) if args and args[0].isdigit() else 2000
ids = [a for a in args if not a.isdigit()]
if not ids:
    ids = [l.split()[0] for l in subprocess.run([DSIM, "list"], capture_output=True, text=True).stdout.splitlines()]

def fp(cid, start, runs, seed=1):
    out = subprocess.run([DSIM, "fingerprints", cid, "--start", str(start), "--runs", str(runs), "--seed", str(seed)], capture_output=True, text=True)
    if out.returncode != 0:
        raise RuntimeError(f"{cid} fingerprints failed: {out.stderr[-400:]}")
    return out.stdout.splitlines()

def chunked(cid, nchunks, seed=1):
    size = (N + nchunks - 1) // nchunks
    jobs = [(cid, k * size, min(size, N - k * size), seed) for k in range(nchunks) if k * size < N]
    with cf.ThreadPoolExecutor(max_workers=16) as ex:
        parts = list(ex.map(lambda j: fp(*j), jobs))
    return [l for p in parts for l in p]

report = {"runs_per_check": N, "checks": {}}
bad = 0
for cid in ids:
    t0 = time.time()
    a = chunked(cid, 1)            # one process, sequential
    b = chunked(cid, 16)           # 16 processes, 16 chunks
    c = chunked(cid, 5)            # 5 processes, different chunk borders
    a2 = chunked(cid, 1, seed=1)   # again, one process
    other = chunked(cid, 4, seed=2)[: len(a)]
    same = a == b == c == a2
    seed_matters = other != a
    diffs = [i for i, (x, y) in enumerate(zip(a, b)) if x != y][:5] + [i for i, (x, y) in enumerate(zip(a, c)) if x != y][:5]
    report["checks"][cid] = {"identical": same, "first_differences": diffs, "different_seed_gives_different_runs": seed_matters, "wall_s": round(time.time() - t0, 1)}
    print(f"{cid}: runs={N} identical_across_process_layouts={same} seed_sensitive={seed_matters} diffs={diffs} ({time.time()-t0:.1f}s)", flush=True)
    if not same:
        bad += 1
json.dump(report, open("/verif/determinism_report.json", "w"), indent=1)
sys.exit(2 if bad else 0)
