#!/usr/bin/env python3
"""Applies every property-preserving refactoring (benign/**/benign*.diff) to /repo (or $VERIF_REPO) in turn,
runs the quick checks whose simulated worlds execute the touched source files (all 18 with --all, or when a
file is not in the table below) via tools/run_benign.sh, expects exit 0 everywhere, restores the tree.
Writes /verif/benign_report.json. A non-zero result is a false alarm of the machinery (or a diff that is not
property-preserving after all): triage, never whitelist.

Which checks can see a file (from the scenario lists in sim/src/checks/mod.rs):
  W-T  routing table alone ............ C07 C08 C16        executes kbucket (C16 also the Discv5 constructor's filters)
  W-Q  query state machines / pool .... C09 C10            executes query_pool
  W-R  inbound filter ................. C18                executes socket/filter, permit_ban
  W-H  real handlers .................. C01 C02 C03 C04 C12 C13 C15 C19   executes handler, session, packet, rpc, socket;
                                        the packet filter is on only in the traffic world (C04 C13 C19)
  W-S  real service, scripted handler . C01 C09 C10 C11 C12 C14 C17 C20   executes service, kbucket, query_pool, rpc, ipmode
  W-F  complete nodes ................. C09 C10 C11 C13 C14 C19 C20       executes everything
"""
import glob, json, os, re, subprocess, sys

ALL = "C01 C02 C03 C04 C07 C08 C09 C10 C11 C12 C13 C14 C15 C16 C17 C18 C19 C20".split()
WF = {"C09", "C10", "C11", "C13", "C14", "C19", "C20"}
WH = {"C01", "C02", "C03", "C04", "C12", "C13", "C15", "C19"}
WS = {"C01", "C09", "C10", "C11", "C12", "C14", "C17", "C20"}
AREAS = [
    (r"^src/socket/filter/|^src/permit_ban\.rs", {"C18", "C04", "C13", "C19", "C11", "C20"} | WF),
    (r"^src/kbucket", {"C07", "C08", "C16"} | WS | WF),
    (r"^src/query_pool", {"C09", "C10", "C11"} | WF),
    (r"^src/service|^src/ipmode|^src/discv5\.rs|^src/config\.rs", WS | WF | {"C16"}),
    (r"^src/handler/|^src/packet/|^src/socket/|^src/node_info\.rs", WH | WF),
    (r"^src/rpc|^src/lru_time_cache\.rs|^src/error\.rs", WH | WS | WF),
]


def checks_for(diff):
    files = re.findall(r"^\+\+\+ b/(\S+)", open(diff).read(), re.M)
    sel = set()
    for f in files:
        for pat, cs in AREAS:
            if re.search(pat, f):
                sel |= cs
                break
        else:
            return ALL, files
    return [c for c in ALL if c in sel], files


if __name__ == "__main__":
    run_all = "--all" in sys.argv
    dry = "--dry" in sys.argv
    ids_arg = [a for a in sys.argv[1:] if not a.startswith("--")]
    rep = []
    allok = True
    total = 0
    for p in sorted(glob.glob("/verif/benign/**/benign*.diff", recursive=True)):
        name = os.path.relpath(p, "/verif/benign")
        ids, files = checks_for(p)
        if run_all:
            ids = ALL
        if ids_arg:
            ids = ids_arg
        total += len(ids)
        if dry:
            print(name, len(ids), " ".join(ids), files)
            continue
        out = subprocess.run(["/verif/tools/run_benign.sh", p] + ids, capture_output=True, text=True)
        alarms = [l for l in out.stdout.splitlines() if l.startswith("ALARM")]
        ok = out.returncode == 0
        allok &= ok
        rep.append({"benign": name, "files": files, "checks_run": ids, "exit": out.returncode, "alarms": alarms, "no_alarm": ok})
        print(name, len(ids), "checks", "exit", out.returncode, alarms, flush=True)
    if dry:
        print(total, "check runs of", 18 * len(glob.glob("/verif/benign/**/benign*.diff", recursive=True)))
        sys.exit(0)
    doc = {"selection": "checks whose simulated worlds execute the touched files (table in tools/benign_regression.py); --all runs all 18", "results": rep}
    if os.environ.get("VERIF_HOME"):
        doc["run_in"] = "scratch worktree of /repo HEAD and scratch copy of /verif (tools/scratch_env.sh), beside the seeded regression"
    json.dump(doc, open("/verif/benign_report.json", "w"), indent=1)
    sys.exit(0 if allok else 1)
