#!/usr/bin/env python3
"""Applies every property-preserving refactoring (benign/**/benign*.diff) to /repo (or $VERIF_REPO) in turn, runs
every quick check (via tools/run_benign.sh), expects exit 0 everywhere, restores /repo.
Writes /verif/benign_report.json. A non-zero result is a false alarm of the machinery (or a diff
that is not property-preserving after all): triage, never whitelist."""
import glob, json, os, subprocess, sys
rep = []
allok = True
for p in sorted(glob.glob("/verif/benign/**/benign*.diff", recursive=True)):
    name = os.path.relpath(p, "/verif/benign")
    out = subprocess.run(["/verif/tools/run_benign.sh", p] + sys.argv[1:], capture_output=True, text=True)
    alarms = [l for l in out.stdout.splitlines() if l.startswith("ALARM")]
    ok = out.returncode == 0
    allok &= ok
    rep.append({"benign": name, "exit": out.returncode, "alarms": alarms, "no_alarm": ok})
    print(name, "exit", out.returncode, alarms, flush=True)
env = os.environ.get("VERIF_HOME")
if env:
    rep = {"run_in": "scratch worktree of /repo HEAD and scratch copy of /verif (tools/scratch_env.sh), so that it could run beside the seeded regression", "results": rep}
json.dump(rep, open("/verif/benign_report.json", "w"), indent=1)
sys.exit(0 if allok else 1)
