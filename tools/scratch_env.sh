#!/bin/bash
# scratch_env.sh make <name> | drop <name>
# make: a scratch git worktree of /repo (HEAD) at /tmp/vr_<name>/repo and a scratch copy of /verif (without
#       build output, stored changes, replays and evidence) at /tmp/vr_<name>/verif whose simulator is built
#       against that worktree. Use with VERIF_REPO=/tmp/vr_<name>/repo VERIF_HOME=/tmp/vr_<name>/verif.
# drop: removes both (and the worktree registration).
set -e
cmd="$1"; name="$2"; [ -n "$name" ] || { echo "usage: scratch_env.sh make|drop <name>"; exit 2; }
base="/tmp/vr_$name"
case "$cmd" in
  make)
    mkdir -p "$base"
    git -C /repo worktree add --detach "$base/repo" HEAD >/dev/null 2>&1
    rsync -a --exclude sim/target --exclude .git --exclude seeded --exclude seeded_not_kept --exclude benign --exclude replays --exclude evidence /verif/ "$base/verif/"
    sed -i "s#path = \"/repo\"#path = \"$base/repo\"#" "$base/verif/sim/Cargo.toml"
    (cd "$base/verif/sim" && cargo build --release --offline -q)
    echo "VERIF_REPO=$base/repo VERIF_HOME=$base/verif"
    ;;
  drop)
    git -C /repo worktree remove --force "$base/repo" 2>/dev/null || true
    git -C /repo worktree prune
    rm -rf "$base"
    ;;
  *) echo "usage: scratch_env.sh make|drop <name>"; exit 2;;
esac
