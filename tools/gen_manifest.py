#!/usr/bin/env python3
"""Regenerates /verif/MANIFEST.json from the table below (kept in one place so it stays valid)."""
import json, subprocess

HOOK_COMMITS = subprocess.run(
    ["git", "-C", "/repo", "log", "--format=%h %s", "--grep=^verif-hooks:"], capture_output=True, text=True
).stdout.strip().splitlines()

TECH = "deterministic simulation with fault injection: seeded search over generated histories/schedules/fault sequences against the real code under a simulated clock, invariant + history oracles, tape shrinking, replay files"

CHECKS = {
    "C07": dict(
        cat="exploration", ref="DESIGN.md §5 C07",
        text="Seeded exploration of operation histories (all table operations incl. the Entry API, clock advances around the pending timeout) on the real KBucketsTable with keys placed in chosen buckets (0..255); structural invariants are evaluated after every operation and the pending-node rules as temporal checks over the history. Sampling, not enumeration: a clean batch is evidence, not proof.",
        note="Trusted: the harness's reference bookkeeping (status-report stamps, pending creation times); simulated clock via clock_gettime interposition. Entry::value_mut (documented to bypass filters) is not exercised.",
        technique="deterministic simulation (W-T table world): generated op histories + simulated clock, invariant oracle after every step"),
    "C08": dict(
        cat="exploration", ref="DESIGN.md §5 C08",
        text="Same generated histories as C07; closest_keys / closest_values / closest_values_predicate for targets at every log2 distance (low bits set) are compared with the sorted full scan, nodes_by_distances with the stored nodes at the requested distances. Oracle distances are computed from raw id bytes.",
        note="Trusted: byte-wise XOR/log2 of the oracle. nodes_by_distances is only called with cap >= 1 and distinct distances.",
        technique="deterministic simulation (W-T table world): generated op histories, reference full-scan oracle"),
}

NOT_APPLICABLE = {
    "C05": "pure function of (byte string, node id): no schedule, clock, fault or interleaving in the statement, so not a simulation target (DESIGN.md §7); corrupted/misdirected real datagrams on the receive path are decided under C02",
    "C06": "pure function of its input bytes: no schedule, clock, fault or interleaving in the statement, so not a simulation target (DESIGN.md §7)",
}
NOT_YET = "check not built yet in this round (planned, see DESIGN.md §11); not claimed until it exists"

props = [json.loads(l)["id"] for l in open("/verif/properties.jsonl")]
checks = []
for pid in props:
    if pid in CHECKS:
        c = CHECKS[pid]
        checks.append({
            "property_id": pid,
            "quick_cmd": f"./check {pid} --tier quick",
            "thorough_cmd": f"./check {pid} --tier thorough",
            "evidence_file": f"/verif/evidence/{pid}.json",
            "replay_cmd_template": f"./check {pid} --replay {{path}}",
            "engine": "dsim",
            "level_claimed": {"category": c["cat"], "text": c["text"], "design_ref": c["ref"]},
            "level_note": c["note"],
            "technique": c["technique"],
        })
na = []
for pid in props:
    if pid not in CHECKS:
        na.append({"property_id": pid, "reason": NOT_APPLICABLE.get(pid, NOT_YET)})

manifest = {
    "version": 1,
    "setup_cmd": "cd /verif/sim && CARGO_NET_OFFLINE=true cargo build --release --offline",
    "hooks": {
        "guard": "cargo feature `verif-hooks` of the discv5 crate (off by default)",
        "enable": "the simulator workspace /verif/sim depends on discv5 = { path = \"/repo\", features = [\"verif-hooks\"] }; ./check rebuilds it from /repo's working tree on every invocation",
        "baseline_off_cmd": "cd /repo && cargo test --workspace --no-fail-fast --offline",
        "source_commits": HOOK_COMMITS,
        "add_only": True,
    },
    "engines": [{
        "name": "dsim",
        "path": "/verif/sim",
        "serves_properties": sorted(CHECKS),
        "kind_free_text": TECH,
    }],
    "checks": checks,
    "not_applicable": na,
    "notes": "Known findings: /verif/known_findings.json. Replay files: /verif/replays/. VERIF_SEED selects the seed (default 1).",
}
json.dump(manifest, open("/verif/MANIFEST.json", "w"), indent=1)
print("MANIFEST.json:", len(checks), "checks,", len(na), "not claimed")
