#!/usr/bin/env python3
"""Regenerates /verif/MANIFEST.json from the table below (kept in one place so it stays valid)."""
import json, subprocess

HOOK_COMMITS = subprocess.run(
    ["git", "-C", "/repo", "log", "--format=%h %s", "--grep=^verif-hooks:"], capture_output=True, text=True
).stdout.strip().splitlines()

TECH = "deterministic simulation with fault injection: seeded search over generated histories/schedules/fault sequences against the real code under a simulated clock, invariant + history oracles, tape shrinking, replay files"

CHECKS = {
    "C11": dict(
        cat="exploration", ref="DESIGN.md §5 C11",
        text="Seeded exploration on a real service whose handler is scripted: lookups with targets that are random, a peer's id, adjacent to a peer's id (request lists containing 0) or the local id; every FINDNODE is answered by an honest responder model (exactly what the protocol and this implementation prescribe, any packet split) or a malicious one (off-distance records, requester's own record, duplicates, totals 0..2^64-1, surplus packets, packets after completion) or a failure. Accepted records (Discovered events, packet by packet) must be returned records at the requested distances, honest complete answers must be accepted completely, the ban list must contain a responder iff it returned an off-distance record in its first packet and never an honest one, packets beyond the 15th or after completion must be ignored.",
        note="Trusted: honest-responder model of the harness; log2 distances from raw id bytes; 'accepted' = reported as Event::Discovered. The handler is a script that honours the handler's contract (checked separately by C04).",
        technique="deterministic simulation (W-S service world, scripted handler): generated responder behaviour, per-response acceptance and ban oracle"),
    "C12": dict(
        cat="exploration", ref="DESIGN.md §5 C12",
        text="Seeded exploration of event sequences (sessions, discovered records of every shape and seq relation, PONGs, failures, add_enr / remove_node / disconnect_node, idle time) against a real service in IPv4 / IPv6 / dual-stack mode with three table filters; the routing table is read through the public API after every step: entries contactable in the IP mode (independent re-statement), passing the filter, never the local node, only ids that were the subject of a session or an explicit add, record changes only to a strictly higher seq. On real handlers (W-H) crafted handshakes check that an incoming Established carries a record whose address equals the observed source.",
        note="Trusted: the scripted handler honours the real handler's contract for Established (address consistent, never an older record than the service knows).",
        technique="deterministic simulation (W-S service world + W-H adversary): generated event sequences, table invariant after every step"),
    "C14": dict(
        cat="exploration", ref="DESIGN.md §5 C14",
        text="Seeded exploration of served requests on a real service with tables of up to 61 real records padded to the 300-byte limit and max_nodes_response 1..48: every FINDNODE answer is compared with the table read back through the public API (exact set when it fits, allowed subset sizes when capped, requester never returned, own record iff 0 requested, ids and totals) and every NODES packet is encrypted with AES-GCM and encoded with the real packet codec to measure its wire size (<= 1280); every PING from a non-zero port gets exactly one PONG with the current seq and the observed address.",
        note="Trusted: raw-byte log2 distance of the oracle; wire size measured with the crate's own codec and cipher through the facade.",
        technique="deterministic simulation (W-S service world, scripted handler): generated requests and table contents, reference answer oracle, real-codec size measurement"),
    "C17": dict(
        cat="exploration", ref="DESIGN.md §5 C17",
        text="Seeded exploration of PONG vote sequences (voter, address, simulated time) against a real service: minimum 2..6, vote durations 8-120 s, eligible and ineligible voters, opinion changes, liars below the minimum, idle gaps up to a whole vote duration; whenever the advertised UDP address changes the harness's vote ledger must justify it (minimum reached, clear-majority margin over every rival), the sequence number must have grown, the record must verify and exactly one SocketUpdated event per change must have been emitted.",
        note="Trusted: the harness's vote ledger (latest unexpired vote per eligible voter). IPv4 and dual-stack mode.",
        technique="deterministic simulation (W-S service world, scripted handler): simulated time around vote expiry, justification oracle at every address change"),
    "C20": dict(
        cat="exploration", ref="DESIGN.md §5 C20",
        text="Seeded exploration of application behaviour towards concurrently delivered TALK requests on a real service: respond / drop / hold in any order, event stream drained, never drained (overflow) or dropped, shutdown at any point followed by respond/drop of held requests; while running each TALKREQ must get exactly one TALKRESP with its id and address (payload or empty), after shutdown respond() must fail cleanly; any panic is a violation.",
        note="Trusted: after shutdown the scripted handler closes its channel like the real handler task.",
        technique="deterministic simulation (W-S service world, scripted handler): generated application schedules incl. shutdown point, exactly-once oracle over HandlerIn::Response"),
    "C01": dict(
        cat="exploration", ref="DESIGN.md §5 C01",
        text="Seeded exploration with an adversary that holds no honest secret key (full wire tap, own keys, injection from any source address): random packets and forged handshakes claiming genuine ids with every combination of attached record, signer, ephemeral key and source address, interleaved with genuine traffic and three states of the victim's knowledge. History oracle: every identity effect (Established, Request, Response, UnverifiableEnr, recipient-side session keys from the key log) must be justified by a delivered handshake whose id-signature verifies under the claimed id's registered public key over one of the node's own WHOAREYOUs to that address, or by the node's own dial of that contact.",
        note="Trusted: the crate's ECDSA id-signature verification (used by the oracle through the facade), the id -> public key registry of the harness, key log hook H6.",
        technique="deterministic simulation (W-H handler world) with an adversary model: forged-handshake injection, justification oracle over the recorded history"),
    "C02": dict(
        cat="fault_enumeration", ref="DESIGN.md §5 C02",
        text="Bounded fault enumeration plus seeded exploration on real handler sessions: for 6 base exchanges x datagram 0..9 every single-bit flip, every truncation length and a 1-byte insertion at every offset replaces the genuine datagram (198540 cases incl. auth-data growth with a patched size field and presentation from the sender's IP on another port: all in the thorough tier, a fixed-stride sample in the quick tier); exploration adds header/body splices, misdelivery, re-masking for another node, spoofed sources, duplicates. Every message handed to an application must be carried by an unmodified datagram of the attributed peer's real handler addressed to this receiver, presented from the attributed address and decrypting (sender's logged key) to exactly that message; a panic in the receive path is a violation.",
        note="Trusted: wire tap origin tags, key log hook H6. Attribution address = address the carrier was presented from (a relay that rewrites the source of a whole handshake is indistinguishable from a NAT).",
        technique="deterministic simulation (W-H handler world): enumerated single-datagram corruption + seeded corruption faults, carrier oracle over the inbound history"),
    "C03": dict(
        cat="fault_enumeration", ref="DESIGN.md §5 C03",
        text="Bounded fault enumeration plus seeded exploration of replays: for 9 base exchanges every recorded handshake/WHOAREYOU datagram x every later point of the exchange (incl. after expiry and during a later exchange) x {original source, other address, towards another node, a WHOAREYOU forged from it, the socket the handshake's own record advertises} is re-injected (5040 cases, all executed in both tiers). Oracle: every recipient-side session creation or re-key (key log) consumes one fresh, unexpired, not yet consumed challenge whose data the delivered handshake's signature verifies against; every new handshake a node emits follows a WHOAREYOU from that address echoing the nonce of a datagram it sent there; at most one handshake per request (read from the handshake with the logged key); id-nonces never repeat.",
        note="Trusted: the crate's id-signature verification for attributing an accepted handshake to its challenge; challenge expiry = request_timeout after the WHOAREYOU or after the last handshake that may have re-armed it.",
        technique="deterministic simulation (W-H handler world): enumerated replay injection + seeded exploration, challenge-consumption ledger"),
    "C15": dict(
        cat="exploration", ref="DESIGN.md §5 C15",
        text="Seeded exploration of idle gaps around session_timeout (2-120 s of simulated time per gap) with traffic in either direction, and of session-cache capacity 1-5 with up to 7 real peers: every encrypt/accept at the victim is attributed to a session via the key log and its idle time checked; after sequential exchanges the victim probes all peers in recency order and exactly the `capacity` most recent ones must still have a session.",
        note="Trusted: key log hook H6; 'use' = encrypt or accept; sequential exchanges make recency unambiguous.",
        technique="deterministic simulation (W-H handler world): simulated clock gaps around the TTL, per-session idle-time oracle, recency-ordered probe"),
    "C04": dict(
        cat="exploration", ref="DESIGN.md §5 C04",
        text="Seeded exploration of whole-handler executions: 2-4 real handlers on a harness-owned virtual network under a simulated clock, concurrent requests, per-run fault profile (drop, duplicate, delay/reorder, partition, slow/silent application, peer restart, injected undecryptable packet, clock jump); history oracle: never two terminals or an event after the terminal, a terminal for every request within a calibrated bound after the last fault (bounded liveness), at most 1+retries transmissions per request and session key (wire tap + key log), Timeout only if some request to that peer was outstanding for a full timeout.",
        note="Trusted: harness ledger and wire tap; key log hook H6; the socket I/O loops are replaced by virtual-network loops (real handle_inbound / Packet::encode still run). Liveness bound B = 4*(retries+1)*timeout + 5 s.",
        technique="deterministic simulation (W-H handler world): virtual network + paused clock + seeded RNG, fault injection, history oracle, bounded liveness after faults stop"),
    "C09": dict(
        cat="exploration", ref="DESIGN.md §5 C09",
        text="Seeded exploration of event orders against the real FindNodeQuery / PredicateQuery state machines and the real QueryPool under explicit simulated time: reference bookkeeping of asked peers and in-flight requests (no peer twice, parallelism bound), discv5's own debug assertions as extra oracles, and a fault-free drain phase with a step bound (termination, result exactly once).",
        note="Trusted: the reference bookkeeping; the parallelism bound is `parallelism` until that many successes were delivered, max(parallelism, k) afterwards.",
        technique="deterministic simulation (W-Q query world): generated event orders with explicit time, reference model, bounded-liveness drain"),
    "C10": dict(
        cat="exploration", ref="DESIGN.md §5 C10",
        text="Same runs as C09; the final result of every query (Finished or pool Timeout) is checked for size, strict XOR order (raw bytes), soundness (asked and answered; predicate match reported) and completeness when fewer than k results came back without a timeout.",
        note="Trusted: 'certainly learned' candidates are an under-approximation (first k initial candidates plus peers from first reports), so completeness cannot false-alarm.",
        technique="deterministic simulation (W-Q query world): generated event orders, result oracle against the harness's history"),
    "C13": dict(
        cat="exploration", ref="DESIGN.md §5 C13",
        text="Same handler world as C04 with malicious peers (second WHOAREYOU, forged WHOAREYOU, random packets from unknown parties) and the packet filter on in half of the handlers; the shared exemption map is compared after every burst of activity with the harness's ledger of outstanding requests (external and handler-internal, from the wire) and challenges (upper bound) and must be empty at quiescence.",
        note="Trusted: ledger built from the wire tap and key log; challenge expiry modelled as request_timeout after the WHOAREYOU or after the last handshake that may have re-armed it.",
        technique="deterministic simulation (W-H handler world): fault + adversary injection, ledger invariant during the run and at quiescence"),
    "C16": dict(
        cat="exploration", ref="DESIGN.md §5 C16",
        text="Seeded exploration of operation histories on the routing table of a Discv5 built with ip_limit (real IP filters), real signed records from 1-3 /24 subnets plus address-less fillers, clock advances around the 60 s pending timeout; per-bucket (2) and per-table (10) /24 counts checked after every operation.",
        note="Trusted: subnet counting of the oracle. Entry::Absent::insert is excluded (documented to bypass the table filter).",
        technique="deterministic simulation (W-T table world with Enr values): generated op histories + simulated clock, invariant oracle"),
    "C18": dict(
        cat="exploration", ref="DESIGN.md §5 C18",
        text="Seeded exploration of arrival schedules against the real inbound Filter under explicit simulated time: window bound burst + rate*window per stage and key over the recorded pass events, conforming traffic never refused, metamorphic pair with/without prune ticks gives identical decisions, ban/permit precedence per stage, quota excess inserts a ban of at least ban_duration.",
        note="Trusted: pacing reference used to generate conforming traffic; quota periods divisible by the burst so the limiter's integer interval is exact. The exemption bypass of handle_inbound is covered under C13.",
        technique="deterministic simulation (W-R filter world): generated arrival schedules with explicit time, window-bound oracle, metamorphic prune pair"),
    "C19": dict(
        cat="exploration", ref="DESIGN.md §5 C19",
        text="Wire monitor over the handler world's traffic (many messages per session, retransmissions, re-keying by either side, forged WHOAREYOUs): every Message/Handshake datagram is attributed to the session key that decrypts it; (emitter, key, nonce) must identify one byte string; id-nonces never repeat.",
        note="Trusted: key log hook H6 reports every session object created.",
        technique="deterministic simulation (W-H handler world): wire tap grouped by session key, uniqueness oracle"),
    "C07": dict(
        cat="exploration", ref="DESIGN.md §5 C07",
        text="Seeded exploration of operation histories (all table operations incl. the Entry API, clock advances around the pending timeout) on the real KBucketsTable with keys placed in chosen buckets (0..255); structural invariants are evaluated after every operation and the pending-node rules as temporal checks over the history. Sampling, not enumeration: a clean batch is evidence, not proof.",
        note="Trusted: the harness's reference bookkeeping (status-report stamps, pending creation times); simulated clock via clock_gettime interposition. Entry::value_mut (documented to bypass filters) is not exercised.",
        technique="deterministic simulation (W-T table world): generated op histories + simulated clock, invariant oracle after every step"),
    "C08": dict(
        cat="exploration", ref="DESIGN.md §5 C08",
        text="Same generated histories as C07; closest_keys / closest_values / closest_values_predicate for targets at every log2 distance (low bits set) and for distances built from word-aligned runs of set and clear bits are compared; distance lists of up to several hundred entries (mostly out of range) with the sorted full scan, nodes_by_distances with the stored nodes at the requested distances. Oracle distances are computed from raw id bytes.",
        note="Trusted: byte-wise XOR/log2 of the oracle. nodes_by_distances is only called with cap >= 1 and distinct distances.",
        technique="deterministic simulation (W-T table world): generated op histories, reference full-scan oracle"),
}

FULL_STACK = " A further scenario runs 2-5 complete Discv5 nodes (public API, service, handler, sessions, tables, query pool, receive path; all honest) on the virtual network with drop / duplicate / delay / bit-flip / late-replay / partition / node-restart faults and tiny session caches or short session lifetimes as per-run knobs"
EXTRA = {
    "C01": " After a who-are-you query the service must not dial the claimed node at the socket the unauthenticated packet named. A second scenario runs the service world of C12: who-are-you queries for table nodes (undecryptable packets claiming them) must not change their entries. A fifth of the handler runs use an IPv6-only network. Each challenge justifies one session only; genuine handshakes are sometimes damaged in their message part and re-presented repeatedly. In a third of the runs a genuine peer lies about who it is after an honest handshake: it answers the handler's own record request (FINDNODE [0] to a contact dialled without a record) with a validly signed record of another identity. Half of the forged handshakes are followed by a second, differently made attempt against the same WHOAREYOU; in IPv6 runs the adversary sometimes sends from an IPv4-mapped source. Recorded genuine messages of an honest peer are presented to the victim from other sockets by a party without keys.",
    "C02": " Forged messages under trivial keys are injected. Explored runs: a fifth on an IPv6-only network, peers advertising another port, datagrams presented from the sender's IP on another port or from the advertised socket. Exploration also lets a party with keys of its own answer a WHOAREYOU in the challenged peer's name from the peer's address. Explored responders sometimes announce a NODES total that is not the number of packets they send (up to 2^64-1): what is delivered must still be what the peer encrypted. Explored responders sometimes seal a hand-made NODES plaintext with a damaged record under their genuine session keys. Genuine datagrams are also presented from the IPv4-mapped IPv6 alias of their source.",
    "C03": " The key a node encrypts with may move back to an earlier handshake's only if a message under those keys arrived since the re-key (9 base exchanges, 5040 enumerated cases; the ninth has a request answered with three NODES packets spread over time, the forgeries echo the nonce of a recorded handshake or repeat a WHOAREYOU with another id-nonce). Exploration also presents WHOAREYOU and handshake datagrams from the sender's IP on another UDP port and delivers damaged genuine handshakes repeatedly, and holds genuine handshakes back until around or past the expiry of the challenge they answer while further undecryptable packets in the sender's name arrive.",
    "C04": " A fifth of the runs use an IPv6-only network; bit flips and late replays are part of the network profile. Session-cache capacity (1-2) and session lifetime (0.3-5 s) are per-run knobs, so sessions are evicted or expire in mid-exchange.",
    "C09": " The service-level lookup scenario has silent peers and a second lookup that runs while requests of the first are still being answered. The pool world also checks the query timeout itself (a poll that examined every query must not leave one in the pool that is past the timeout). One pool lookup in ten has parallelism 0 (it must end by the query timeout). The routing table changes while service-level lookups run." + FULL_STACK + ": every API future must return within a bound after the faults stop.",
    "C10": " The service-level lookup scenario uses tables larger than k and checks completeness over the records the service accepted. The routing table changes while service-level lookups run (connects, removals aimed at candidates not asked yet)." + FULL_STACK + ": every find_node result is checked at the API (distinct, not the local node, increasing distance, at most 16, each id belongs to a node that put a NODES response to the caller on the wire).",
    "C11": " The node's own max_nodes_response is 4..64 (the honest responder model follows it). ban_duration is the default, 10 min or None. The unrequested records of malicious responders are dialable, IPv6-only, without UDP port or without address. Some responders are on the application's permit lists." + FULL_STACK + ": the ban list must stay empty.",
    "C12": " On real handlers the adversary's own identity is known to the victim with a lower, equal or higher sequence number than the record its handshake attaches (a held record is replaced only by a strictly newer one). Record shapes include an IPv4 address without UDP port. The identity world includes a peer presenting another identity's record in answer to the handler's own record request. In IPv6 runs the adversary's handshakes sometimes arrive from an IPv4-mapped source.",
    "C13": " In the banned-peer scenario another endpoint on the awaited peer's IP must not profit from the exemption. A lower bound is checked as well (transmitted requests without outcome, from the request-transmission log). Session-cache capacity and lifetime are per-run knobs; a banned-peer-bypass scenario checks that an exemption really lets a banned peer's answer through and nothing else. Malicious peers also send a WHOAREYOU echoing the nonce of a request in flight from another endpoint than the dialled one." + FULL_STACK + ": all exemption maps must be empty once every API call returned and the address has been silent for a timeout.",
    "C14": " Tables of up to 176 nodes. PING sources are IPv4, IPv6 and IPv4-mapped addresses with ports from the whole range; the local record is sometimes updated before a PING; record sizes vary at byte granularity. One request in eight names (nearly) every distance 0..=256, in any order, with duplicates and out-of-range values. A fifth of the nodes advertise no socket in their own record. A quarter of the nodes listen dual-stack." + FULL_STACK + ": every NODES and PONG on the wire is decrypted with the key log and checked (requested distances only, never the requester's record, only table entries or the own record, PONG reports the requester's address and the current sequence number).",
    "C15": " A retransmission mode (retries 2-3, sessions shorter than a request timeout, late answers). The victim's application sometimes answers only after the session a request came in on has expired; a fifth of the runs use IPv6. A third scenario combines both: a full cache in which one session expires (its peer possibly crashed, the expired entry possibly looked up again) must drop that one, not a live one, when a new peer arrives. Replayed old datagrams include handshakes (no use of any session: neither idle time nor recency rank may change). Who-are-you queries raised by undecryptable packets are sometimes answered late by the application (no use of a session).",
    "C16": " The node listens on IPv4, IPv6 only or both. Operations are aimed at the current pending candidate more often than chance. An eighth of the IPv4 records carry an address without a UDP port, another eighth IPv4 and IPv6 endpoints together.",
    "C17": " The application sometimes overrides the advertised socket by hand. PINGs to voters sometimes time out (their unexpired votes stand). Every SocketUpdated event must announce an address the record now advertises. Dual-stack mode (per-family votes) is included. The connectivity check (auto-NAT) runs in a quarter of the single-stack and half of the dual-stack runs; in dual-stack mode the clear-majority margin is checked with bounds on the tally (certain votes of connected outgoing peers, possible votes of everybody else). Voters publish new records and answer the node's record requests with NODES responses (no votes).",
    "C18": " Sender addresses are IPv4, IPv4-mapped IPv6 and IPv6. Datagrams are of message kind, handshake kind or a mix. Ban durations down to 100 ms and list edits that lift bans: the window bound must hold across the end of a ban.",
    "C19": FULL_STACK + ": the same uniqueness oracle over all nodes' traffic.",
    "C20": " Payloads of every size class up to 5000 bytes, possibly empty; the application sometimes panics while holding a request. The application may sit on requests for 50 ms to 10 min of simulated time. Requesters are unknown, known through a session or known from a table entry advertising another socket than the one they send from; a quarter of the runs listen dual-stack. The requester of a held request is sometimes banned before the application responds. In dual-stack runs half of the requesters send from the IPv4-mapped form of their address." + FULL_STACK + ": TALKRESP packets on the wire never outnumber the TalkRequest events, carry a payload the application produced, and match the events in number at the end (unless the node restarted or its handler dropped a response for lack of a session).",
}

NOT_APPLICABLE = {
    "C05": "pure function of (byte string, node id): no schedule, clock, fault or interleaving in the statement, so not a simulation target (DESIGN.md §7); corrupted/misdirected real datagrams on the receive path are decided under C02",
    "C06": "pure function of its input bytes: no schedule, clock, fault or interleaving in the statement, so not a simulation target (DESIGN.md §7)",
}
NOT_YET = "check not built yet in this round (planned, see DESIGN.md §11); not claimed until it exists"

props = [json.loads(l)["id"] for l in open("/verif/properties.jsonl")]
checks = []
for pid in props:
    if pid in CHECKS:
        c = CHECKS[pid]
        checks.append({
            "property_id": pid,
            "quick_cmd": f"./check {pid} --tier quick",
            "thorough_cmd": f"./check {pid} --tier thorough",
            "evidence_file": f"/verif/evidence/{pid}.json",
            "replay_cmd_template": f"./check {pid} --replay {{path}}",
            "engine": "dsim",
            "level_claimed": {"category": c["cat"], "text": c["text"] + EXTRA.get(pid, ""), "design_ref": c["ref"]},
            "level_note": c["note"],
            "technique": c["technique"],
        })
na = []
for pid in props:
    if pid not in CHECKS:
        na.append({"property_id": pid, "reason": NOT_APPLICABLE.get(pid, NOT_YET)})

manifest = {
    "version": 1,
    "setup_cmd": "cd /verif/sim && CARGO_NET_OFFLINE=true cargo build --release --offline",
    "hooks": {
        "guard": "cargo feature `verif-hooks` of the discv5 crate (off by default)",
        "enable": "the simulator workspace /verif/sim depends on discv5 = { path = \"/repo\", features = [\"verif-hooks\"] }; ./check rebuilds it from /repo's working tree on every invocation",
        "baseline_off_cmd": "cd /repo && cargo test --workspace --no-fail-fast --offline",
        "source_commits": HOOK_COMMITS,
        "add_only": True,
    },
    "engines": [{
        "name": "dsim",
        "path": "/verif/sim",
        "serves_properties": sorted(CHECKS),
        "kind_free_text": TECH,
    }],
    "checks": checks,
    "not_applicable": na,
    "notes": "Known findings: /verif/known_findings.json. Replay files: /verif/replays/. VERIF_SEED selects the seed (default 1).",
}
json.dump(manifest, open("/verif/MANIFEST.json", "w"), indent=1)
print("MANIFEST.json:", len(checks), "checks,", len(na), "not claimed")
