#!/bin/bash
# run_seeded.sh <patch.diff> <ID> [ID...] : apply a seeded change to /repo, run the quick checks, undo.
P="$1"; shift
cd /repo && git diff --quiet || { echo "/repo has uncommitted changes"; exit 2; }
git -C /repo apply "$P" || { echo "patch does not apply to /repo"; exit 2; }
for id in "$@"; do
  out=$(cd /verif && ./check $id --tier quick --no-evidence 2>&1)
  echo "$id exit=$? $(echo "$out" | grep -E "^VIOLATION|^# done|HARNESS" | tr '\n' ' ')"
done
git -C /repo checkout -- .
cd /verif/sim && cargo build --release --offline -q 2>/dev/null
