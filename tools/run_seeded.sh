#!/bin/bash
# run_seeded.sh <patch.diff> <ID> [ID...] : apply a seeded change to /repo, run the quick checks, undo.
REPO="${VERIF_REPO:-/repo}"; HOME_V="${VERIF_HOME:-/verif}"
P="$1"; shift
cd "$REPO" && git diff --quiet || { echo "$REPO has uncommitted changes"; exit 2; }
git -C "$REPO" apply "$P" || { echo "patch does not apply to $REPO"; exit 2; }
for id in "$@"; do
  out=$(cd "$HOME_V" && ./check $id --tier quick --no-evidence 2>&1)
  echo "$id exit=$? $(echo "$out" | grep -E "^VIOLATION|^# done|HARNESS" | tr '\n' ' ')"
done
git -C "$REPO" checkout -- .
cd "$HOME_V/sim" && cargo build --release --offline -q 2>/dev/null
