#!/usr/bin/env python3
"""Sensitivity proof on the repaired defects: for every `fixed` entry of known_findings.json the
fix commit is reverted in /repo's working tree (git revert --no-commit), the property's quick check
must exit 1 with the recorded oracle clause, the minimised replay is stored under replays/kept/,
and /repo is restored (git reset --hard HEAD). Writes /verif/refind_report.json."""
import json, re, shutil, subprocess, sys
k = json.load(open("/verif/known_findings.json"))
report = []
ok_all = True
for f in k["findings"]:
    if f.get("status") != "fixed":
        continue
    c, prop, clause = f["commit"], f["property"], f["clause"]
    r = subprocess.run(["git", "-C", "/repo", "revert", "--no-commit", c], capture_output=True, text=True)
    if r.returncode != 0:
        subprocess.run(["git", "-C", "/repo", "revert", "--abort"], capture_output=True)
        subprocess.run(["git", "-C", "/repo", "reset", "--hard", "HEAD"], capture_output=True)
        report.append({"property": prop, "commit": c, "result": "revert does not apply cleanly", "detail": r.stderr[-300:]})
        ok_all = False
        continue
    out = subprocess.run(["./check", prop, "--tier", "quick", "--no-evidence"], cwd="/verif", capture_output=True, text=True)
    subprocess.run(["git", "-C", "/repo", "reset", "--hard", "HEAD"], capture_output=True)
    viol = re.findall(r"VIOLATION property=(\S+) replay=(\S+)", out.stdout)
    clauses = []
    kept = None
    for _, path in viol:
        try:
            rj = json.load(open(path))
        except Exception:
            continue
        clauses.append(rj.get("clause"))
        if rj.get("clause") == clause and kept is None:
            kept = f["replay_before_fix"] if f.get("replay_before_fix") else f"replays/kept/{prop}-{c}.json"
            shutil.copy(path, "/verif/" + kept)
    found = clause in clauses
    ok_all &= found
    report.append({"property": prop, "commit": c, "expected_clause": clause, "check_exit": out.returncode, "clauses_reported": clauses, "found": found, "kept_replay": kept})
    print(prop, c, "exit", out.returncode, "clauses", clauses, "FOUND" if found else "MISSED", flush=True)
subprocess.run(["cargo", "build", "--release", "--offline", "-q"], cwd="/verif/sim")
json.dump(report, open("/verif/refind_report.json", "w"), indent=1)
sys.exit(0 if ok_all else 1)
