#!/bin/bash
# confirm_seeded.sh <worktree> : confirms a sub-agent's change in its own scratch worktree:
#  (a) patch+demo applied: pre-existing tests pass, demo tests fail; (b) demo only: everything passes.
# (no git stash: the stash is shared between worktrees)
set -u
WT="$1"
cd "$WT" || exit 2
git checkout -q -- . 2>/dev/null
git clean -fdq -e patch.diff -e demo.diff -e NOTES.md -e PROPERTY.txt -e target 2>/dev/null
git apply patch.diff || { echo "patch.diff does not apply"; exit 2; }
git apply demo.diff || { echo "demo.diff does not apply"; exit 2; }
echo "== (a) patch + demo"
cargo test --offline --lib 2>&1 | grep -E "^test result|FAILED|failed$" | head -20
echo "== (b) demo only"
git apply -R patch.diff || { echo "cannot revert patch"; exit 2; }
cargo test --offline --lib 2>&1 | grep -E "^test result|FAILED|failed$" | head -20
git apply patch.diff
