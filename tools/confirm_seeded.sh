#!/bin/bash
# confirm_seeded.sh <worktree> : confirms a sub-agent's change in its own scratch worktree:
#  (a) patch+demo applied: pre-existing tests pass, demo tests fail; (b) demo only: everything passes.
set -u
WT="$1"
cd "$WT" || exit 2
git stash -q --include-untracked 2>/dev/null
git checkout -q -- . 2>/dev/null
git stash pop -q 2>/dev/null
# start from pristine + both diffs
git checkout -q -- src 2>/dev/null
git apply patch.diff || { echo "patch.diff does not apply"; exit 2; }
git apply demo.diff || { echo "demo.diff does not apply"; exit 2; }
echo "== (a) patch + demo"
cargo test --offline --lib 2>&1 | grep -E "^test result|FAILED|failed$" | head -20
echo "== (b) demo only"
git apply -R patch.diff || { echo "cannot revert patch"; exit 2; }
cargo test --offline --lib 2>&1 | grep -E "^test result|FAILED|failed$" | head -20
git apply patch.diff
