#!/bin/bash
# run_benign.sh <diff> [ID...] : apply a property-preserving change to /repo, run quick checks
# (all by default); every check must still exit 0. Restores /repo.
# VERIF_REPO / VERIF_HOME: a scratch worktree of /repo and a scratch copy of /verif made by tools/scratch_env.sh
# (lets two regressions run side by side); default /repo and /verif.
REPO="${VERIF_REPO:-/repo}"; HOME_V="${VERIF_HOME:-/verif}"
P="$1"; shift
IDS="$@"; [ -z "$IDS" ] && IDS="C01 C02 C03 C04 C07 C08 C09 C10 C11 C12 C13 C14 C15 C16 C17 C18 C19 C20"
cd "$REPO" && git diff --quiet || { echo "$REPO has uncommitted changes"; exit 2; }
git -C "$REPO" apply "$P" || { echo "patch does not apply to $REPO"; exit 2; }
bad=0
for id in $IDS; do
  out=$(cd "$HOME_V" && ./check $id --tier quick --no-evidence 2>&1); rc=$?
  if [ $rc -ne 0 ]; then bad=1; echo "ALARM $id exit=$rc $(echo "$out" | grep -E "^VIOLATION|HARNESS" | tr '\n' ' ')"; fi
done
git -C "$REPO" checkout -- .
[ $bad -eq 0 ] && echo "no alarm on $(basename $(dirname $P))/$(basename $P)"
cd "$HOME_V/sim" && cargo build --release --offline -q 2>/dev/null
exit $bad
